"""Bounded concrete AST interpreter used by rules/C29.py (file-wrap round trip).

The helper functions of ``openmdao/utils/file_wrap.py`` are tiny, first-order and work on primitives
(str / int / float / list), so their clauses are decided by *evaluating the AST* over finite tables of
inputs instead of matching one spelling of the code.  Nothing of /repo is imported or exec'd: the
interpreter walks ``ast`` nodes obtained from ``core.Repo`` and only ever calls

  * a frozen whitelist of pure host builtins / str / list methods / ``re`` / ``math`` functions
    (their semantics *are* the language semantics the property talks about), and
  * small models written here for the three external libraries the module touches:
    ``pyparsing`` (PEG elements: Word, Literal, CaselessLiteral, oneOf, Combine, Optional, OneOrMore,
    ``+``, ``|``, TokenConverter subclasses, parseString), ``numpy`` (isfinite/isnan/isinf, zeros,
    array, append, 1-D/2-D indexing) and file objects (``open`` on an in-memory file table).

Anything outside the supported fragment raises ``Unsupported`` -> the rule reports *undecided*
(never a violation).  A Python exception raised by the interpreted code is ``PyRaise``.
"""
import ast
import builtins
import copy
import math
import re as _re
import string

from .core import AnalysisError


class Unsupported(Exception):
    """Construct outside the interpreted fragment."""

    def __init__(self, node, why):
        super().__init__(why)
        self.node, self.why = node, why


class PyRaise(Exception):
    """An exception raised by the interpreted program."""

    def __init__(self, cls, msg='', where=None, node=None, binding_depth=None):
        super().__init__(f'{cls.__name__}: {msg}')
        self.cls, self.msg, self.where, self.node = cls, msg, where, node
        self.binding_depth = binding_depth   # call-stack depth of a failed argument binding, else None

    def brief(self):
        return f'{self.cls.__name__}({self.msg!r})' if self.msg else self.cls.__name__


class ParseException(Exception):
    """Model of pyparsing.ParseException."""


class _Return(Exception):
    def __init__(self, value):
        self.value = value


class _Break(Exception):
    pass


class _Continue(Exception):
    pass


# ----------------------------------------------------------------------------- values
class Obj:
    """Instance of a class defined in the analysed module."""

    def __init__(self, cls):
        self.cls = cls          # qualname
        self.attrs = {}

    def __repr__(self):
        return f'<{self.cls} object>'


class FuncRef:
    def __init__(self, func):
        self.func = func


class ClassRef:
    def __init__(self, qn):
        self.qn = qn


class Bound:
    def __init__(self, obj, func):
        self.obj, self.func = obj, func


class BoundHost:
    """Whitelisted method of a host primitive (str / list / re.Match ...)."""

    def __init__(self, recv, name):
        self.recv, self.name = recv, name


class Model:
    """A modelled library callable."""

    def __init__(self, name, fn):
        self.name, self.fn = name, fn


class Stub:
    """A modelled module / namespace object (np, math, re, pyparsing, ParserElement)."""

    def __init__(self, name, table):
        self.name, self.table = name, table


class Marker:
    """Opaque identity value (np.str_, TokenConverter, ...)."""

    def __init__(self, name):
        self.name = name

    def __repr__(self):
        return f'<{self.name}>'


TOKEN_CONVERTER = Marker('pyparsing.TokenConverter')
NP_STR = Marker('numpy.str_')
NP_FLOAT = Marker('numpy.float64')
NP_INT = Marker('numpy.int64')


# ----------------------------------------------------------------------------- numpy model
class DType:
    def __init__(self, kind):
        self.kind = kind


class NdArr:
    """Minimal ndarray: shape tuple (0-, 1- or 2-D), flat row-major data, kind in 'f','i','U'."""

    def __init__(self, shape, data, kind):
        self.shape, self.data, self.kind = tuple(shape), list(data), kind

    # construction helpers ---------------------------------------------------------------
    @staticmethod
    def _kind(vals):
        if any(isinstance(v, str) for v in vals):
            return 'U'
        if any(isinstance(v, float) for v in vals):
            return 'f'
        if vals and all(isinstance(v, (int, bool)) for v in vals):
            return 'i'
        return 'f'

    @staticmethod
    def _coerce(v, kind):
        if kind == 'U':
            return v if isinstance(v, str) else str(v)
        if kind == 'f':
            if isinstance(v, str):
                try:
                    return float(v)
                except ValueError:
                    raise PyRaise(ValueError, f'could not convert string to float: {v!r}')
            return float(v)
        if isinstance(v, str):
            try:
                return int(v)
            except ValueError:
                raise PyRaise(ValueError, f'invalid literal for int(): {v!r}')
        return int(v)

    @classmethod
    def array(cls, x):
        if isinstance(x, NdArr):
            return NdArr(x.shape, x.data, x.kind)
        if isinstance(x, str):
            return NdArr((), [x], 'U')
        if isinstance(x, (int, float)):
            return NdArr((), [x], cls._kind([x]))
        if isinstance(x, (list, tuple)):
            if x and all(isinstance(r, (list, tuple)) for r in x):
                n = len(x[0])
                if any(len(r) != n for r in x):
                    raise Unsupported(None, 'ragged nested list passed to np.array')
                flat = [v for r in x for v in r]
                k = cls._kind(flat)
                return NdArr((len(x), n), [cls._coerce(v, k) for v in flat], k)
            if any(not isinstance(v, (int, float, str, bool)) for v in x):
                raise Unsupported(None, 'np.array of non-scalar elements')
            k = cls._kind(list(x))
            return NdArr((len(x),), [cls._coerce(v, k) for v in x], k)
        raise Unsupported(None, f'np.array({type(x).__name__})')

    @classmethod
    def zeros(cls, shape):
        if isinstance(shape, int):
            shape = (shape,)
        shape = tuple(shape)
        if len(shape) > 2 or any((not isinstance(s, int)) or s < 0 for s in shape):
            raise Unsupported(None, f'np.zeros(shape={shape!r})')
        n = 1
        for s in shape:
            n *= s
        return NdArr(shape, [0.0] * n, 'f')

    @classmethod
    def append(cls, a, b):
        a, b = cls.array(a), cls.array(b)
        k = 'U' if 'U' in (a.kind, b.kind) else 'f' if 'f' in (a.kind, b.kind) else 'i'
        data = [cls._coerce(v, k) for v in a.data + b.data]
        return NdArr((len(data),), data, k)

    # access -----------------------------------------------------------------------------
    @property
    def ndim(self):
        return len(self.shape)

    def length(self):
        if not self.shape:
            raise PyRaise(TypeError, 'len() of unsized object')
        return self.shape[0]

    def rows(self):
        if self.ndim == 1:
            return list(self.data)
        if self.ndim == 2:
            m = self.shape[1]
            return [NdArr((m,), self.data[i * m:(i + 1) * m], self.kind) for i in range(self.shape[0])]
        raise PyRaise(TypeError, 'iteration over a 0-d array')

    def tolist(self):
        if self.ndim == 0:
            return self.data[0]
        if self.ndim == 1:
            return list(self.data)
        m = self.shape[1]
        return [self.data[i * m:(i + 1) * m] for i in range(self.shape[0])]

    @staticmethod
    def _full(s):
        return isinstance(s, slice) and s.start is None and s.stop is None and s.step is None

    def _row_index(self, i):
        n = self.shape[0]
        if not isinstance(i, int) or isinstance(i, bool):
            raise Unsupported(None, f'array index {i!r}')
        if i < -n or i >= n:
            raise PyRaise(IndexError, f'index {i} is out of bounds for axis 0 with size {n}')
        return i % n if n else 0

    def getitem(self, idx):
        if self.ndim == 1:
            if isinstance(idx, slice):
                d = self.data[idx]
                return NdArr((len(d),), d, self.kind)
            return self.data[self._row_index(idx)]
        if self.ndim == 2:
            m = self.shape[1]
            if isinstance(idx, tuple) and len(idx) == 2 and self._full(idx[1]):
                i = self._row_index(idx[0])
                return NdArr((m,), self.data[i * m:(i + 1) * m], self.kind)
            if isinstance(idx, tuple) and len(idx) == 2 and isinstance(idx[1], int) and isinstance(idx[0], int):
                i = self._row_index(idx[0])
                if idx[1] < -m or idx[1] >= m:
                    raise PyRaise(IndexError, f'index {idx[1]} is out of bounds for axis 1 with size {m}')
                return self.data[i * m + idx[1] % m]
            if isinstance(idx, int):
                i = self._row_index(idx)
                return NdArr((m,), self.data[i * m:(i + 1) * m], self.kind)
            if isinstance(idx, tuple) and len(idx) == 2 and self._full(idx[0]) and isinstance(idx[1], int) \
                    and not isinstance(idx[1], bool):
                if idx[1] < -m or idx[1] >= m:
                    raise PyRaise(IndexError, f'index {idx[1]} is out of bounds for axis 1 with size {m}')
                c = idx[1] % m
                return NdArr((self.shape[0],), [self.data[r * m + c] for r in range(self.shape[0])], self.kind)
        raise Unsupported(None, f'array indexing with {idx!r} on shape {self.shape}')

    def setitem(self, idx, val):
        if self.ndim == 2 and isinstance(idx, tuple) and len(idx) == 2 and self._full(idx[1]):
            m = self.shape[1]
            i = self._row_index(idx[0])
            if isinstance(val, NdArr):
                if val.ndim == 0:
                    vals = val.data * m
                elif val.ndim == 1:
                    vals = list(val.data)
                else:
                    raise Unsupported(None, 'assigning a 2-D array to a row')
            elif isinstance(val, (list, tuple)):
                vals = list(val)
            else:
                vals = [val] * m
            if len(vals) == 1 and m != 1:
                vals = vals * m
            if len(vals) != m:
                raise PyRaise(ValueError, f'could not broadcast input array from shape ({len(vals)},) '
                                          f'into shape ({m},)')
            self.data[i * m:(i + 1) * m] = [self._coerce(v, self.kind) for v in vals]
            return
        if self.ndim == 1 and isinstance(idx, int):
            self.data[self._row_index(idx)] = self._coerce(val, self.kind)
            return
        raise Unsupported(None, f'array store with index {idx!r} on shape {self.shape}')


# ----------------------------------------------------------------------------- pyparsing model
NUMS = '0123456789'
ALPHAS = string.ascii_uppercase + string.ascii_lowercase
ALPHANUMS = ALPHAS + NUMS
PRINTABLES = ''.join(c for c in string.printable if c not in string.whitespace)
DEFAULT_WS = ' \n\t\r'


class El:
    """PEG element.  ``skip``: skip leading characters of ``ws`` before matching (pyparsing preParse)."""

    node = None     # AST expression that built the element (for messages)

    def __init__(self, ws):
        self.ws, self.skip = ws, True

    def pre(self, s, pos):
        if self.skip:
            n = len(s)
            while pos < n and s[pos] in self.ws:
                pos += 1
        return pos

    def leave_ws(self):
        """Copy of this element (recursively) that does not skip whitespace (Combine(adjacent))."""
        c = copy.copy(self)
        c.skip = False
        for fld in ('expr',):
            if hasattr(c, fld):
                setattr(c, fld, getattr(c, fld).leave_ws())
        if hasattr(c, 'exprs'):
            c.exprs = [e.leave_ws() for e in c.exprs]
        return c

    def parse(self, s, pos, interp):   # -> (pos, tokens) or None
        raise NotImplementedError


class Word(El):
    def __init__(self, chars, ws):
        super().__init__(ws)
        self.chars = chars

    def parse(self, s, pos, interp):
        pos = self.pre(s, pos)
        j = pos
        n = len(s)
        while j < n and s[j] in self.chars:
            j += 1
        return (j, [s[pos:j]]) if j > pos else None

    def __repr__(self):
        return f'Word({self.chars[:12]!r}..)' if len(self.chars) > 12 else f'Word({self.chars!r})'


class Lit(El):
    def __init__(self, text, ws, caseless=False):
        super().__init__(ws)
        self.text, self.caseless = text, caseless

    def parse(self, s, pos, interp):
        pos = self.pre(s, pos)
        seg = s[pos:pos + len(self.text)]
        if not self.text:
            return None
        if seg == self.text or (self.caseless and seg.upper() == self.text.upper()):
            return pos + len(self.text), [self.text]
        return None

    def __repr__(self):
        return ('CaselessLiteral' if self.caseless else 'Literal') + f'({self.text!r})'


class OneOf(El):
    """oneOf("a b c"): the longest listed literal matching at the position (pyparsing reorders masks)."""

    def __init__(self, words, ws):
        super().__init__(ws)
        self.words = list(dict.fromkeys(words))

    def parse(self, s, pos, interp):
        pos = self.pre(s, pos)
        for w in sorted(self.words, key=len, reverse=True):
            if w and s.startswith(w, pos):
                return pos + len(w), [w]
        return None

    def __repr__(self):
        return 'oneOf(' + ' '.join(self.words) + ')'


class And(El):
    def __init__(self, exprs, ws):
        super().__init__(ws)
        self.exprs = exprs

    def parse(self, s, pos, interp):
        toks = []
        for e in self.exprs:
            r = e.parse(s, pos, interp)
            if r is None:
                return None
            pos, t = r
            toks += t
        return pos, toks

    def __repr__(self):
        return '(' + ' + '.join(map(repr, self.exprs)) + ')'


class First(El):
    def __init__(self, exprs, ws):
        super().__init__(ws)
        self.exprs = exprs

    def parse(self, s, pos, interp):
        for e in self.exprs:
            r = e.parse(s, pos, interp)
            if r is not None:
                return r
        return None

    def __repr__(self):
        return '(' + ' | '.join(map(repr, self.exprs)) + ')'


class Opt(El):
    def __init__(self, expr, ws):
        super().__init__(ws)
        self.expr = expr

    def parse(self, s, pos, interp):
        r = self.expr.parse(s, pos, interp)
        return r if r is not None else (pos, [])

    def __repr__(self):
        return f'Optional({self.expr!r})'


class Many(El):
    def __init__(self, expr, ws, at_least):
        super().__init__(ws)
        self.expr, self.at_least = expr, at_least

    def parse(self, s, pos, interp):
        toks, n = [], 0
        while True:
            r = self.expr.parse(s, pos, interp)
            if r is None or (r[0] == pos and not r[1]):
                break
            pos, t = r
            toks += t
            n += 1
        return (pos, toks) if n >= self.at_least else None

    def __repr__(self):
        return ('OneOrMore' if self.at_least else 'ZeroOrMore') + f'({self.expr!r})'


class Comb(El):
    def __init__(self, expr, ws):
        super().__init__(ws)
        self.expr = expr.leave_ws()

    def leave_ws(self):
        c = copy.copy(self)
        c.skip = False
        return c

    def parse(self, s, pos, interp):
        pos = self.pre(s, pos)
        r = self.expr.parse(s, pos, interp)
        if r is None:
            return None
        if any(not isinstance(t, str) for t in r[1]):
            raise Unsupported(None, 'Combine over non-string tokens')
        return r[0], [''.join(r[1])]

    def __repr__(self):
        return f'Combine({self.expr!r})'


class Conv(El):
    """Instance of a TokenConverter subclass defined in the analysed module."""

    def __init__(self, cls, expr, ws):
        super().__init__(ws)
        self.cls, self.expr = cls, expr

    def parse(self, s, pos, interp):
        start = self.expr.pre(s, pos) if isinstance(self.expr, El) else pos
        r = self.expr.parse(s, pos, interp)
        if r is None:
            return None
        pos, toks = r
        f = interp.find_method(self.cls, 'postParse')
        if f is None:
            return pos, toks
        interp.conv_log.append((self.cls, list(toks), self))
        ret = interp.call_function(f, [Obj(self.cls), s, start, list(toks)], {})
        if ret is None:
            return pos, toks
        if isinstance(ret, (list, tuple)):
            return pos, list(ret)
        return pos, [ret]

    def __repr__(self):
        return f'{self.cls}({self.expr!r})'


def parse_string(el, line, interp):
    if not isinstance(line, str):
        raise PyRaise(TypeError, 'parseString expects a string')
    r = el.parse(line.expandtabs(), 0, interp)
    if r is None:
        raise PyRaise(ParseException, f'no match in {line!r}')
    return list(r[1])


# ----------------------------------------------------------------------------- files
class FileStub:
    def __init__(self, vfs, name, mode):
        self.vfs, self.name, self.mode, self.closed = vfs, name, mode, False
        if 'r' in mode:
            if name not in vfs:
                raise PyRaise(FileNotFoundError, str(name))
            self.text = vfs[name]
            self.pos = 0
        elif 'w' in mode:
            self.buf = []
            vfs[name] = ''
        else:
            raise Unsupported(None, f'open mode {mode!r}')

    def lines(self):
        rest = self.text[self.pos:]
        self.pos = len(self.text)
        return rest.splitlines(keepends=True)

    def close(self):
        if not self.closed and 'w' in self.mode:
            self.vfs[self.name] = ''.join(self.buf)
        self.closed = True


# ----------------------------------------------------------------------------- whitelists
_STR_METHODS = {'replace', 'split', 'rsplit', 'rstrip', 'lstrip', 'strip', 'find', 'rfind', 'index', 'count',
                'startswith', 'endswith', 'lower', 'upper', 'join', 'format', 'isspace', 'isdigit',
                'isalpha', 'isalnum', 'splitlines', 'partition', 'rpartition', 'expandtabs', 'ljust',
                'rjust', 'zfill', 'title', 'capitalize', 'swapcase', 'center'}
_LIST_METHODS = {'append', 'extend', 'index', 'count', 'pop', 'insert', 'copy', 'reverse', 'remove'}
_TUPLE_METHODS = {'index', 'count'}
_DICT_METHODS = {'get', 'keys', 'values', 'items', 'setdefault', 'pop'}
_MATCH_METHODS = {'group', 'start', 'end', 'span'}
_PATTERN_METHODS = {'sub', 'match', 'search', 'findall', 'split', 'fullmatch'}
_NUM_METHODS = {'is_integer', 'bit_length', 'conjugate', 'hex'}

_BUILTINS = {n: getattr(builtins, n) for n in (
    'int', 'float', 'str', 'repr', 'bool', 'abs', 'range', 'enumerate', 'reversed', 'list', 'tuple', 'min',
    'max', 'round', 'format', 'sorted', 'zip', 'sum', 'any', 'all', 'chr', 'ord', 'divmod', 'isinstance',
    'object', 'dict', 'set', 'pow',
    'Exception', 'ValueError', 'RuntimeError', 'TypeError', 'IndexError', 'KeyError', 'OverflowError',
    'ArithmeticError', 'ZeroDivisionError', 'LookupError', 'AttributeError', 'NotImplementedError',
    'AssertionError', 'FloatingPointError', 'BaseException', 'StopIteration', 'OSError', 'IOError',
    'FileNotFoundError')}
_PRIMS = (int, float, str, bool, type(None))
_CONTAINERS = (list, tuple, dict, set, range)


def _is_exc_class(v):
    return isinstance(v, type) and issubclass(v, BaseException)


class Interp:
    MAX_STEPS = 300000
    MAX_DEPTH = 40

    def __init__(self, repo, rel, vfs=None):
        self.repo, self.rel = repo, rel
        self.mod = repo.module(rel)
        self.vfs = {} if vfs is None else vfs
        self.steps = 0
        self.ws = DEFAULT_WS          # pyparsing's class-wide default whitespace characters
        self.stack = []
        self.conv_log = []            # (converter class, tokens) of every postParse call
        self._globals = None
        self._stubs = self._make_stubs()

    # ------------------------------------------------------------------ library models
    def _make_stubs(self):
        def fin(fn):
            def f(x):
                if isinstance(x, NdArr):
                    raise Unsupported(None, 'elementwise numpy predicate on an array')
                if isinstance(x, bool) or not isinstance(x, (int, float)):
                    if isinstance(x, bool):
                        return fn(x)
                    raise PyRaise(TypeError, f'ufunc not supported for the input type {type(x).__name__}')
                return fn(x)
            return f

        def np_zeros(*a, **k):
            shape = k.pop('shape', a[0] if a else None)
            if k or len(a) > 1 or shape is None:
                raise Unsupported(None, 'np.zeros with dtype/order arguments')
            return NdArr.zeros(shape)

        def np_array(*a, **k):
            if k or len(a) != 1:
                raise Unsupported(None, 'np.array with extra arguments')
            return NdArr.array(a[0])

        def np_append(*a, **k):
            if k or len(a) != 2:
                raise Unsupported(None, 'np.append with axis')
            return NdArr.append(a[0], a[1])

        np_t = {'isfinite': Model('np.isfinite', fin(math.isfinite)), 'isnan': Model('np.isnan', fin(math.isnan)),
                'isinf': Model('np.isinf', fin(math.isinf)), 'inf': math.inf, 'nan': math.nan, 'pi': math.pi,
                'zeros': Model('np.zeros', np_zeros), 'array': Model('np.array', np_array),
                'asarray': Model('np.asarray', np_array), 'append': Model('np.append', np_append),
                'str_': NP_STR, 'float64': NP_FLOAT, 'int64': NP_INT,
                'abs': Model('np.abs', fin(abs)), 'fabs': Model('np.fabs', fin(math.fabs)),
                'floor': Model('np.floor', fin(lambda x: float(math.floor(x)) if math.isfinite(x) else x)),
                'trunc': Model('np.trunc', fin(lambda x: float(math.trunc(x)) if math.isfinite(x) else x)),
                'sign': Model('np.sign', fin(lambda x: x if x != x else float((x > 0) - (x < 0))))}
        math_t = {n: Model('math.' + n, self._host(getattr(math, n))) for n in (
            'isfinite', 'isnan', 'isinf', 'floor', 'ceil', 'trunc', 'copysign', 'fabs', 'modf', 'frexp',
            'log10', 'isclose')}
        math_t.update(inf=math.inf, nan=math.nan, pi=math.pi)

        def re_sub(pattern, repl, s, *rest, **kw):
            count = kw.pop('count', rest[0] if rest else 0)
            if kw or len(rest) > 1 or not isinstance(count, int):
                raise Unsupported(None, 're.sub with flags')
            return self._re_sub(pattern, repl, s, count)
        re_t = {'compile': Model('re.compile', self._host(_re.compile)), 'sub': Model('re.sub', re_sub),
                'escape': Model('re.escape', self._host(_re.escape)),
                'split': Model('re.split', self._host(_re.split)),
                'findall': Model('re.findall', self._host(_re.findall)),
                'match': Model('re.match', self._host(_re.match)),
                'search': Model('re.search', self._host(_re.search))}

        def el(x):
            if isinstance(x, str):
                return Lit(x, self.ws)
            if isinstance(x, El):
                return x
            raise Unsupported(None, f'pyparsing element expected, got {type(x).__name__}')

        def one_of(strs, *a, **k):
            if a or k:
                raise Unsupported(None, 'oneOf with caseless/useRegex arguments')
            words = strs.split() if isinstance(strs, str) else list(strs)
            return OneOf(words, self.ws)

        def set_ws(chars):
            if not isinstance(chars, str):
                raise PyRaise(TypeError, 'whitespace characters must be a string')
            self.ws = chars
        pe = Stub('ParserElement', {'setDefaultWhitespaceChars': Model('setDefaultWhitespaceChars', set_ws),
                                    'set_default_whitespace_chars': Model('setDefaultWhitespaceChars', set_ws)})

        def word(chars, *a, **k):
            if a or k:
                raise Unsupported(None, 'Word with body/min/max arguments')
            return Word(chars, self.ws)
        pp_t = {'Word': Model('Word', word),
                'Literal': Model('Literal', lambda s: Lit(s, self.ws)),
                'CaselessLiteral': Model('CaselessLiteral', lambda s: Lit(s, self.ws, caseless=True)),
                'Combine': Model('Combine', lambda e: Comb(el(e), self.ws)),
                'Optional': Model('Optional', lambda e: Opt(el(e), self.ws)),
                'Opt': Model('Opt', lambda e: Opt(el(e), self.ws)),
                'OneOrMore': Model('OneOrMore', lambda e: Many(el(e), self.ws, 1)),
                'ZeroOrMore': Model('ZeroOrMore', lambda e: Many(el(e), self.ws, 0)),
                'oneOf': Model('oneOf', one_of), 'one_of': Model('one_of', one_of),
                'nums': NUMS, 'alphas': ALPHAS, 'alphanums': ALPHANUMS, 'printables': PRINTABLES,
                'TokenConverter': TOKEN_CONVERTER, 'ParserElement': pe}
        self._el = el
        return {'numpy': Stub('numpy', np_t), 'math': Stub('math', math_t), 're': Stub('re', re_t),
                'pyparsing': Stub('pyparsing', pp_t)}

    @staticmethod
    def _host(fn):
        def f(*a, **k):
            try:
                return fn(*a, **k)
            except (Unsupported, PyRaise):
                raise
            except Exception as e:     # the host function has exactly Python's semantics
                raise PyRaise(type(e), str(e))
        return f

    def _re_sub(self, pattern, repl, s, count=0):
        if isinstance(pattern, str):
            pattern = self._host(_re.compile)(pattern)
        if not isinstance(pattern, _re.Pattern) or not isinstance(s, str):
            raise PyRaise(TypeError, 're.sub: expected pattern and string')
        if isinstance(repl, str):
            return self._host(pattern.sub)(repl, s, count)

        def cb(m):
            r = self.call(repl, [m], {})
            if not isinstance(r, str):
                raise PyRaise(TypeError, f'expected str instance, {type(r).__name__} found')
            return r
        return pattern.sub(cb, s, count)

    # ------------------------------------------------------------------ names
    def module_globals(self):
        if self._globals is None:
            g = {}
            for st in self.mod.tree.body:
                if isinstance(st, ast.Assign) and len(st.targets) == 1 and isinstance(st.targets[0], ast.Name):
                    g[st.targets[0].id] = st.value
            self._globals = g
        return self._globals

    def lookup(self, name, fr, node=None):
        if name in fr:
            return fr[name]
        f = self.mod.funcs.get(name)
        if f is not None:
            return FuncRef(f)
        if name in self.mod.classes:
            return ClassRef(name)
        g = self.module_globals()
        if name in g:
            return self.eval(g[name], {})
        imp = self.mod.imports.get(name)
        if imp is not None:
            modname, orig = imp
            stub = self._stubs.get(modname)
            if stub is None:
                raise Unsupported(node, f'import of {modname} is not modelled')
            if orig is None:
                return stub
            if orig in stub.table:
                return stub.table[orig]
            raise Unsupported(node, f'{modname}.{orig} is not modelled')
        if name in _BUILTINS:
            return _BUILTINS[name]
        if name in ('print', 'len', 'open'):
            return Model(name, getattr(self, '_b_' + name))
        if name in dir(builtins):
            raise Unsupported(node, f'builtin {name} is outside the interpreted fragment')
        raise PyRaise(NameError, f"name '{name}' is not defined")

    def _b_print(self, *a, **k):
        return None

    def _b_len(self, x):
        if isinstance(x, NdArr):
            return x.length()
        if isinstance(x, (str, list, tuple, dict, set, range)):
            return len(x)
        raise PyRaise(TypeError, f"object of type '{type(x).__name__}' has no len()")

    def _b_open(self, name, mode='r', **k):
        if k:
            raise Unsupported(None, 'open() with keyword arguments')
        return FileStub(self.vfs, name, mode)

    # ------------------------------------------------------------------ classes
    def class_bases(self, qn):
        c = self.mod.classes.get(qn)
        if c is None:
            raise Unsupported(None, f'class {qn} not found')
        out = []
        for b in c.bases:
            out.append(self.eval(b, {}))
        return out

    def is_converter(self, qn, _d=0):
        for b in self.class_bases(qn):
            if b is TOKEN_CONVERTER:
                return True
            if isinstance(b, ClassRef) and _d < 5 and self.is_converter(b.qn, _d + 1):
                return True
        return False

    def find_method(self, qn, name, _d=0):
        f = self.mod.funcs.get(f'{qn}.{name}')
        if f is not None:
            return f
        if _d < 5:
            for b in self.class_bases(qn):
                if isinstance(b, ClassRef):
                    f = self.find_method(b.qn, name, _d + 1)
                    if f is not None:
                        return f
        return None

    def class_attr(self, qn, name):
        c = self.mod.classes[qn]
        for st in c.body:
            if isinstance(st, ast.Assign) and any(isinstance(t, ast.Name) and t.id == name for t in st.targets):
                return True, self.eval(st.value, {})
        return False, None

    def new(self, qn, *args, **kwargs):
        return self.instantiate(ClassRef(qn), list(args), kwargs, None)

    def instantiate(self, cref, args, kwargs, node):
        if cref.qn not in self.mod.classes:
            raise AnalysisError(f'anchor class vanished: {self.rel}:{cref.qn}')
        if self.is_converter(cref.qn):
            if self.find_method(cref.qn, '__init__') is not None or len(args) != 1 or kwargs:
                raise Unsupported(node, f'TokenConverter subclass {cref.qn} with a custom constructor')
            return Conv(cref.qn, self._el(args[0]), self.ws)
        o = Obj(cref.qn)
        init = self.find_method(cref.qn, '__init__')
        if init is not None:
            if node is None and not self.stack:
                self._harness(init, [o] + args, kwargs)
            else:
                self.call_function(init, [o] + args, kwargs)
        elif args or kwargs:
            raise PyRaise(TypeError, f'{cref.qn}() takes no arguments')
        return o

    # ------------------------------------------------------------------ calls
    def method(self, obj, name, *args, **kwargs):
        """Call a method of an interpreted object (harness entry point)."""
        f = self.find_method(obj.cls, name)
        if f is None:
            raise AnalysisError(f'anchor function vanished: {self.rel}:{obj.cls}.{name}')
        return self._harness(f, [obj] + list(args), kwargs)

    def _harness(self, f, args, kwargs):
        """Call made by a rule (not by the analysed code): a signature mismatch is not a finding."""
        try:
            return self.call_function(f, args, kwargs)
        except PyRaise as e:
            if e.binding_depth == 0 and not self.stack:
                raise Unsupported(f.node, f'the rule\'s call protocol no longer matches the signature of '
                                          f'{f.qualname}: {e.msg}')
            raise

    def function(self, name, *args, **kwargs):
        f = self.mod.funcs.get(name)
        if f is None:
            raise AnalysisError(f'anchor function vanished: {self.rel}:{name}')
        return self._harness(f, list(args), kwargs)

    def call(self, fn, args, kwargs, node=None):
        if isinstance(fn, FuncRef):
            return self.call_function(fn.func, args, kwargs)
        if isinstance(fn, Bound):
            return self.call_function(fn.func, [fn.obj] + args, kwargs)
        if isinstance(fn, ClassRef):
            return self.instantiate(fn, args, kwargs, node)
        if isinstance(fn, Model):
            try:
                return fn.fn(*args, **kwargs)
            except Unsupported as u:
                if u.node is None:
                    u.node = node
                raise
        if isinstance(fn, BoundHost):
            return self._host(getattr(fn.recv, fn.name))(*args, **kwargs)
        if fn is isinstance:
            return self._isinstance(args, node)
        if _is_exc_class(fn):
            return self._host(fn)(*args, **kwargs)
        if any(fn is b for b in _BUILTINS.values()):
            return self._call_builtin(fn, args, kwargs, node)
        raise Unsupported(node, f'call of {type(fn).__name__} value')

    def _isinstance(self, args, node):
        if len(args) != 2:
            raise PyRaise(TypeError, 'isinstance expected 2 arguments')
        x, t = args
        ts = t if isinstance(t, tuple) else (t,)
        res = False
        for c in ts:
            if isinstance(c, ClassRef):
                res = res or (isinstance(x, Obj) and x.cls == c.qn)
            elif c is NP_FLOAT:
                res = res or isinstance(x, float)
            elif c is NP_INT or c is NP_STR:
                pass
            elif isinstance(c, type) and c in (int, float, str, bool, list, tuple, dict, set, object):
                res = res or (isinstance(x, c) if not isinstance(x, (Obj, NdArr, El)) else c is object)
            else:
                raise Unsupported(node, 'isinstance against an unmodelled type')
        return res

    def _call_builtin(self, fn, args, kwargs, node):
        conv = []
        for a in args:
            if isinstance(a, NdArr):
                if fn in (list, tuple, enumerate, reversed, sorted, min, max, sum, zip, any, all):
                    a = a.rows()
                elif fn in (str, repr):
                    raise Unsupported(node, 'text form of an array')
                else:
                    raise Unsupported(node, f'{fn.__name__}() of an array')
            elif isinstance(a, FileStub):
                if fn in (list, enumerate):
                    a = a.lines()
                else:
                    raise Unsupported(node, f'{fn.__name__}() of a file object')
            elif isinstance(a, (Obj, El, Stub, Marker, FuncRef, ClassRef, Bound, Model)):
                raise Unsupported(node, f'{fn.__name__}() of a {type(a).__name__}')
            conv.append(a)
        r = self._host(fn)(*conv, **kwargs)
        if fn in (enumerate, reversed, zip):
            r = list(r)
        return r

    def call_function(self, func, args, kwargs):
        node = func.node
        a = node.args
        if a.vararg or a.kwarg or a.posonlyargs:
            raise Unsupported(node, f'{func.qualname}: *args/**kwargs/positional-only parameters')
        if len(self.stack) > self.MAX_DEPTH:
            raise Unsupported(node, 'call depth limit')
        params = [p.arg for p in a.args]
        fr = {}
        if len(args) > len(params):
            raise self._bind_error(f'{func.qualname}() takes {len(params)} positional arguments but '
                                   f'{len(args)} were given')
        for p, v in zip(params, args):
            fr[p] = v
        kwonly = [p.arg for p in a.kwonlyargs]
        for k, v in kwargs.items():
            if k in fr:
                raise self._bind_error(f'{func.qualname}() got multiple values for argument {k!r}')
            if k not in params and k not in kwonly:
                raise self._bind_error(f'{func.qualname}() got an unexpected keyword argument {k!r}')
            fr[k] = v
        defaults = dict(zip(params[len(params) - len(a.defaults):], a.defaults))
        for p in params:
            if p not in fr:
                if p in defaults:
                    fr[p] = self.eval(defaults[p], {})
                else:
                    raise self._bind_error(f'{func.qualname}() missing required argument {p!r}')
        for p, d in zip(a.kwonlyargs, a.kw_defaults):
            if p.arg not in fr:
                if d is None:
                    raise self._bind_error(f'{func.qualname}() missing keyword-only argument {p.arg!r}')
                fr[p.arg] = self.eval(d, {})
        if any(isinstance(n, (ast.Yield, ast.YieldFrom, ast.Await)) for n in ast.walk(node)):
            raise Unsupported(node, f'{func.qualname} is a generator/coroutine')
        self.stack.append(func)
        try:
            self.exec_block(node.body, fr)
            return None
        except _Return as r:
            return r.value
        finally:
            self.stack.pop()

    def _bind_error(self, msg):
        return PyRaise(TypeError, msg, binding_depth=len(self.stack))

    # ------------------------------------------------------------------ statements
    def tick(self, node):
        self.steps += 1
        if self.steps > self.MAX_STEPS:
            raise Unsupported(node, 'step budget exhausted (non-terminating loop?)')

    def exec_block(self, stmts, fr):
        for st in stmts:
            self.exec_stmt(st, fr)

    def exec_stmt(self, st, fr):
        self.tick(st)
        try:
            self._exec(st, fr)
        except PyRaise as e:
            if e.node is None:
                e.node = st
            if e.where is None and self.stack:
                e.where = self.stack[-1]
            raise
        except Unsupported as u:
            if u.node is None:
                u.node = st
            raise

    def _exec(self, st, fr):
        if isinstance(st, ast.Expr):
            self.eval(st.value, fr)
        elif isinstance(st, ast.Assign):
            v = self.eval(st.value, fr)
            for t in st.targets:
                self.assign(t, v, fr)
        elif isinstance(st, ast.AnnAssign):
            if st.value is not None:
                self.assign(st.target, self.eval(st.value, fr), fr)
        elif isinstance(st, ast.AugAssign):
            cur = self.eval(self._as_load(st.target), fr)
            v = self.binop(st.op, cur, self.eval(st.value, fr), st)
            self.assign(st.target, v, fr)
        elif isinstance(st, ast.If):
            self.exec_block(st.body if self.truth(self.eval(st.test, fr), st) else st.orelse, fr)
        elif isinstance(st, ast.While):
            broke = False
            while self.truth(self.eval(st.test, fr), st):
                self.tick(st)
                try:
                    self.exec_block(st.body, fr)
                except _Break:
                    broke = True
                    break
                except _Continue:
                    continue
            if not broke:
                self.exec_block(st.orelse, fr)
        elif isinstance(st, ast.For):
            broke = False
            for v in self.iterate(self.eval(st.iter, fr), st):
                self.tick(st)
                self.assign(st.target, v, fr)
                try:
                    self.exec_block(st.body, fr)
                except _Break:
                    broke = True
                    break
                except _Continue:
                    continue
            if not broke:
                self.exec_block(st.orelse, fr)
        elif isinstance(st, ast.Return):
            raise _Return(None if st.value is None else self.eval(st.value, fr))
        elif isinstance(st, ast.Pass):
            pass
        elif isinstance(st, ast.Break):
            raise _Break()
        elif isinstance(st, ast.Continue):
            raise _Continue()
        elif isinstance(st, ast.Raise):
            if st.exc is None:
                cur = fr.get('@exc')
                if cur is None:
                    raise PyRaise(RuntimeError, 'No active exception to reraise')
                raise PyRaise(cur.cls, cur.msg, cur.where, cur.node)
            v = self.eval(st.exc, fr)
            if _is_exc_class(v):
                raise PyRaise(v, '')
            if isinstance(v, BaseException):
                raise PyRaise(type(v), str(v))
            raise PyRaise(TypeError, 'exceptions must derive from BaseException')
        elif isinstance(st, ast.Assert):
            if not self.truth(self.eval(st.test, fr), st):
                raise PyRaise(AssertionError, '')
        elif isinstance(st, ast.Try):
            self._try(st, fr)
        elif isinstance(st, ast.With):
            self._with(st, fr)
        elif isinstance(st, (ast.Import, ast.ImportFrom)):
            raise Unsupported(st, 'local import')
        else:
            raise Unsupported(st, f'statement {type(st).__name__}')

    def _try(self, st, fr):
        try:
            try:
                self.exec_block(st.body, fr)
            except PyRaise as e:
                for h in st.handlers:
                    if self._handles(h.type, e, fr, h):
                        if h.name:
                            fr[h.name] = e.cls(e.msg)
                        prev = fr.get('@exc')
                        fr['@exc'] = e
                        try:
                            self.exec_block(h.body, fr)
                        finally:
                            fr['@exc'] = prev
                        break
                else:
                    raise
            else:
                self.exec_block(st.orelse, fr)
        finally:
            if st.finalbody:
                self.exec_block(st.finalbody, fr)

    def _handles(self, t, e, fr, node):
        if t is None:
            return True
        v = self.eval(t, fr)
        cs = v if isinstance(v, tuple) else (v,)
        for c in cs:
            if not _is_exc_class(c):
                raise Unsupported(node, 'except clause with an unmodelled exception type')
            if issubclass(e.cls, c):
                return True
        return False

    def _with(self, st, fr):
        if len(st.items) != 1:
            raise Unsupported(st, 'with statement with several items')
        it = st.items[0]
        cm = self.eval(it.context_expr, fr)
        if not isinstance(cm, FileStub):
            raise Unsupported(st, 'with statement over a non-file context manager')
        if it.optional_vars is not None:
            self.assign(it.optional_vars, cm, fr)
        try:
            self.exec_block(st.body, fr)
        finally:
            cm.close()

    @staticmethod
    def _as_load(t):
        c = copy.copy(t)
        c.ctx = ast.Load()
        return c

    def assign(self, t, v, fr):
        if isinstance(t, ast.Name):
            fr[t.id] = v
        elif isinstance(t, ast.Attribute):
            o = self.eval(t.value, fr)
            if not isinstance(o, Obj):
                raise Unsupported(t, f'attribute store on {type(o).__name__}')
            o.attrs[t.attr] = v
        elif isinstance(t, ast.Subscript):
            c = self.eval(t.value, fr)
            i = self.index(t.slice, fr)
            if isinstance(c, NdArr):
                c.setitem(i, v)
            elif isinstance(c, (list, dict)):
                try:
                    c[i] = v
                except Exception as e:
                    raise PyRaise(type(e), str(e))
            else:
                raise PyRaise(TypeError, f"'{type(c).__name__}' object does not support item assignment")
        elif isinstance(t, (ast.Tuple, ast.List)):
            vals = self.iterate(v, t)
            if any(isinstance(e, ast.Starred) for e in t.elts):
                raise Unsupported(t, 'starred assignment')
            if len(vals) != len(t.elts):
                raise PyRaise(ValueError, 'wrong number of values to unpack')
            for e, x in zip(t.elts, vals):
                self.assign(e, x, fr)
        else:
            raise Unsupported(t, f'assignment target {type(t).__name__}')

    def iterate(self, v, node):
        if isinstance(v, (list, tuple, str, range)):
            return list(v)
        if isinstance(v, dict):
            return list(v.keys())
        if isinstance(v, set):
            return sorted(v)
        if isinstance(v, NdArr):
            return v.rows()
        if isinstance(v, FileStub):
            return v.lines()
        if isinstance(v, _PRIMS):
            raise PyRaise(TypeError, f"'{type(v).__name__}' object is not iterable")
        raise Unsupported(node, f'iteration over {type(v).__name__}')

    def truth(self, v, node):
        if isinstance(v, _PRIMS) or isinstance(v, _CONTAINERS):
            return bool(v)
        if isinstance(v, NdArr):
            if len(v.data) == 1:
                return bool(v.data[0])
            raise PyRaise(ValueError, 'The truth value of an array with more than one element is ambiguous')
        if isinstance(v, (Obj, El, Stub, Marker, FuncRef, ClassRef, Bound, Model, FileStub, _re.Pattern,
                          _re.Match)):
            return True
        raise Unsupported(node, f'truth value of {type(v).__name__}')

    # ------------------------------------------------------------------ expressions
    def index(self, sl, fr):
        if isinstance(sl, ast.Slice):
            return slice(None if sl.lower is None else self.eval(sl.lower, fr),
                         None if sl.upper is None else self.eval(sl.upper, fr),
                         None if sl.step is None else self.eval(sl.step, fr))
        if isinstance(sl, ast.Tuple):
            return tuple(self.index(e, fr) for e in sl.elts)
        return self.eval(sl, fr)

    def eval(self, e, fr):
        self.tick(e)
        m = getattr(self, 'e_' + type(e).__name__, None)
        if m is None:
            raise Unsupported(e, f'expression {type(e).__name__}')
        return m(e, fr)

    def e_Constant(self, e, fr):
        if isinstance(e.value, (int, float, str, bool, type(None))):
            return e.value
        raise Unsupported(e, f'constant of type {type(e.value).__name__}')

    def e_Name(self, e, fr):
        return self.lookup(e.id, fr, e)

    def e_List(self, e, fr):
        return [self.eval(x, fr) for x in e.elts]

    def e_Tuple(self, e, fr):
        return tuple(self.eval(x, fr) for x in e.elts)

    def e_Dict(self, e, fr):
        if any(k is None for k in e.keys):
            raise Unsupported(e, 'dict unpacking')
        return {self.eval(k, fr): self.eval(v, fr) for k, v in zip(e.keys, e.values)}

    def e_IfExp(self, e, fr):
        return self.eval(e.body if self.truth(self.eval(e.test, fr), e) else e.orelse, fr)

    def e_BoolOp(self, e, fr):
        v = None
        for x in e.values:
            v = self.eval(x, fr)
            t = self.truth(v, e)
            if isinstance(e.op, ast.And) and not t:
                return v
            if isinstance(e.op, ast.Or) and t:
                return v
        return v

    def e_UnaryOp(self, e, fr):
        v = self.eval(e.operand, fr)
        if isinstance(e.op, ast.Not):
            return not self.truth(v, e)
        if not isinstance(v, (int, float)):
            raise Unsupported(e, f'unary operator on {type(v).__name__}')
        if isinstance(e.op, ast.USub):
            return -v
        if isinstance(e.op, ast.UAdd):
            return +v
        raise Unsupported(e, 'unary operator')

    _BIN = {ast.Add: lambda a, b: a + b, ast.Sub: lambda a, b: a - b, ast.Mult: lambda a, b: a * b,
            ast.Div: lambda a, b: a / b, ast.FloorDiv: lambda a, b: a // b, ast.Mod: lambda a, b: a % b,
            ast.Pow: lambda a, b: a ** b}

    def binop(self, op, a, b, node):
        if isinstance(a, El) or isinstance(b, El):
            if isinstance(op, ast.Add):
                l, r = self._el(a), self._el(b)
                le = l.exprs if isinstance(l, And) and l is a else [l]
                return And(le + [r], self.ws)
            if isinstance(op, ast.BitOr):
                l, r = self._el(a), self._el(b)
                le = l.exprs if isinstance(l, First) and l is a else [l]
                return First(le + [r], self.ws)
            raise Unsupported(node, 'operator on pyparsing elements')
        f = self._BIN.get(type(op))
        if f is None:
            raise Unsupported(node, f'operator {type(op).__name__}')
        ok = (int, float, str, bool, list, tuple)
        if not isinstance(a, ok) or not isinstance(b, ok):
            raise Unsupported(node, f'operator on {type(a).__name__}, {type(b).__name__}')
        if isinstance(a, str) and isinstance(op, ast.Mod):
            bb = b if isinstance(b, tuple) else (b,)
            if any(not isinstance(x, _PRIMS) for x in bb):
                raise Unsupported(node, '%-formatting of a non-primitive value')
        if isinstance(op, ast.Pow) and isinstance(b, (int, float)) and abs(b) > 4096:
            raise Unsupported(node, 'large exponent')
        if isinstance(op, ast.Mult) and ((isinstance(a, (str, list, tuple)) and isinstance(b, int) and b > 100000)
                                          or (isinstance(b, (str, list, tuple)) and isinstance(a, int)
                                              and a > 100000)):
            raise Unsupported(node, 'large sequence repetition')
        return self._host(f)(a, b)

    def e_BinOp(self, e, fr):
        r = self.binop(e.op, self.eval(e.left, fr), self.eval(e.right, fr), e)
        if isinstance(r, El) and r.node is None:
            r.node = e
        return r

    def e_Compare(self, e, fr):
        left = self.eval(e.left, fr)
        for op, c in zip(e.ops, e.comparators):
            right = self.eval(c, fr)
            if not self.cmp(op, left, right, e):
                return False
            left = right
        return True

    def cmp(self, op, a, b, node):
        if isinstance(op, (ast.Is, ast.IsNot)):
            if isinstance(a, (int, float, str)) and not isinstance(a, bool) and \
                    isinstance(b, (int, float, str)) and not isinstance(b, bool):
                raise Unsupported(node, 'identity comparison of numbers/strings')
            r = a is b
            return r if isinstance(op, ast.Is) else not r
        if isinstance(op, (ast.In, ast.NotIn)):
            if isinstance(b, NdArr):
                raise Unsupported(node, 'membership test on an array')
            if not isinstance(b, (str, list, tuple, dict, set, range)):
                raise PyRaise(TypeError, f"argument of type '{type(b).__name__}' is not iterable")
            r = self._host(lambda: a in b)()
            return r if isinstance(op, ast.In) else not r
        prim = (int, float, str, bool, type(None), list, tuple)
        if isinstance(op, (ast.Eq, ast.NotEq)):
            if isinstance(a, NdArr) or isinstance(b, NdArr):
                raise Unsupported(node, 'elementwise array comparison')
            if isinstance(a, prim) and isinstance(b, prim):
                r = a == b
            else:
                r = a is b
            return r if isinstance(op, ast.Eq) else not r
        if not (isinstance(a, prim) and isinstance(b, prim)):
            raise Unsupported(node, f'ordering of {type(a).__name__}, {type(b).__name__}')
        f = {ast.Lt: lambda: a < b, ast.LtE: lambda: a <= b, ast.Gt: lambda: a > b, ast.GtE: lambda: a >= b}
        return self._host(f[type(op)])()

    def e_Subscript(self, e, fr):
        c = self.eval(e.value, fr)
        i = self.index(e.slice, fr)
        if isinstance(c, NdArr):
            return c.getitem(i)
        if isinstance(c, (str, list, tuple, dict, range)):
            return self._host(lambda: c[i])()
        if isinstance(c, _PRIMS):
            raise PyRaise(TypeError, f"'{type(c).__name__}' object is not subscriptable")
        raise Unsupported(e, f'subscript of {type(c).__name__}')

    def e_Attribute(self, e, fr):
        o = self.eval(e.value, fr)
        a = e.attr
        if isinstance(o, Obj):
            if a in o.attrs:
                return o.attrs[a]
            f = self.find_method(o.cls, a)
            if f is not None:
                if 'staticmethod' in f.decorators() or 'classmethod' in f.decorators() or \
                        'property' in f.decorators():
                    raise Unsupported(e, f'decorated method {f.qualname}')
                return Bound(o, f)
            found, v = self.class_attr(o.cls, a)
            if found:
                return v
            raise PyRaise(AttributeError, f"'{o.cls}' object has no attribute '{a}'")
        if isinstance(o, Stub):
            if a in o.table:
                return o.table[a]
            raise Unsupported(e, f'{o.name}.{a} is not modelled')
        if isinstance(o, str):
            if a in _STR_METHODS:
                return BoundHost(o, a)
            raise Unsupported(e, f'str.{a}')
        if isinstance(o, list):
            if a in _LIST_METHODS:
                return BoundHost(o, a)
            raise Unsupported(e, f'list.{a}')
        if isinstance(o, tuple) and a in _TUPLE_METHODS:
            return BoundHost(o, a)
        if isinstance(o, dict) and a in _DICT_METHODS:
            return BoundHost(o, a)
        if isinstance(o, (int, float)) and a in _NUM_METHODS:
            return BoundHost(o, a)
        if isinstance(o, _re.Match) and a in _MATCH_METHODS:
            return BoundHost(o, a)
        if isinstance(o, _re.Pattern):
            if a == 'sub':
                return Model('pattern.sub', lambda repl, s, count=0: self._re_sub(o, repl, s, count))
            if a in _PATTERN_METHODS:
                return BoundHost(o, a)
        if isinstance(o, El):
            if a in ('parseString', 'parse_string'):
                return Model('parseString', lambda line: parse_string(o, line, self))
            raise Unsupported(e, f'pyparsing element method {a}')
        if isinstance(o, NdArr):
            if a == 'dtype':
                return DType(o.kind)
            if a == 'shape':
                return o.shape
            if a == 'size':
                return len(o.data)
            if a == 'tolist':
                return Model('tolist', o.tolist)
            raise Unsupported(e, f'ndarray.{a}')
        if isinstance(o, DType):
            if a == 'type':
                return {'U': NP_STR, 'f': NP_FLOAT, 'i': NP_INT}[o.kind]
            raise Unsupported(e, f'dtype.{a}')
        if isinstance(o, FileStub):
            if a == 'readlines':
                return Model('readlines', o.lines)
            if a == 'read':
                return Model('read', lambda: ''.join(o.lines()))
            if a == 'close':
                return Model('close', o.close)
            if a == 'write':
                return Model('write', lambda s: self._fwrite(o, [s]))
            if a == 'writelines':
                return Model('writelines', lambda ls: self._fwrite(o, ls))
            raise Unsupported(e, f'file.{a}')
        raise Unsupported(e, f'attribute {a} of {type(o).__name__}')

    def _fwrite(self, f, items):
        if 'w' not in f.mode:
            raise PyRaise(OSError, 'not writable')
        if isinstance(items, NdArr) or not isinstance(items, (list, tuple)):
            raise Unsupported(None, 'writelines of a non-list')
        for s in items:
            if not isinstance(s, str):
                raise PyRaise(TypeError, f'write() argument must be str, not {type(s).__name__}')
            f.buf.append(s)

    def e_Call(self, e, fr):
        fn = self.eval(e.func, fr)
        args = []
        for a in e.args:
            if isinstance(a, ast.Starred):
                args.extend(self.iterate(self.eval(a.value, fr), e))
            else:
                args.append(self.eval(a, fr))
        kwargs = {}
        for k in e.keywords:
            if k.arg is None:
                raise Unsupported(e, '**kwargs call')
            kwargs[k.arg] = self.eval(k.value, fr)
        r = self.call(fn, args, kwargs, e)
        if isinstance(r, El) and r.node is None:
            r.node = e
        return r

    def e_JoinedStr(self, e, fr):
        out = []
        for v in e.values:
            if isinstance(v, ast.Constant):
                out.append(v.value)
            else:
                out.append(self.e_FormattedValue(v, fr))
        return ''.join(out)

    def e_FormattedValue(self, e, fr):
        v = self.eval(e.value, fr)
        if not isinstance(v, _PRIMS):
            raise Unsupported(e, 'formatting of a non-primitive value')
        if e.conversion == ord('r'):
            v = repr(v)
        elif e.conversion == ord('s'):
            v = str(v)
        elif e.conversion == ord('a'):
            v = ascii(v)
        spec = self.e_JoinedStr(e.format_spec, fr) if e.format_spec is not None else ''
        return self._host(format)(v, spec)

    def _comp(self, gens, fr, emit):
        if not gens:
            emit(fr)
            return
        g = gens[0]
        if g.is_async:
            raise Unsupported(g, 'async comprehension')
        for v in self.iterate(self.eval(g.iter, fr), g.iter):
            self.tick(g.iter)
            self.assign(g.target, v, fr)
            if all(self.truth(self.eval(c, fr), c) for c in g.ifs):
                self._comp(gens[1:], fr, emit)

    def e_ListComp(self, e, fr):
        out = []
        self._comp(e.generators, dict(fr), lambda f: out.append(self.eval(e.elt, f)))
        return out

    def e_GeneratorExp(self, e, fr):
        return self.e_ListComp(e, fr)
