"""omstatic -- repository-specific static checkers for OpenMDAO properties C01..C34.

Every check parses /repo's current sources with ``ast`` on every run; OpenMDAO is never imported
or executed by a check.  See /verif/DESIGN.md.
"""
