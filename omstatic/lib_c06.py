"""Bounded abstract interpreter for the pure arithmetic/string fragment of openmdao/utils/units.py.

Used by rules/C06.py.  Nothing of /repo is imported, compiled, exec'd or eval'd by CPython: the module's
AST (from omstatic.core.Module) is walked by the evaluator below over an *exact* value domain:

* Python ``int``  -> int
* Python ``float`` -> ``Fl`` (a ``fractions.Fraction`` tagged as float: no rounding, so algebraic laws are
  decided as rational-function identities at fixed sample points)
* ``str``, ``bool``, ``None``, ``list``, ``tuple``, ``dict`` -> themselves
* instances of classes defined in the analysed module -> ``Obj`` (attribute dict; dict subclasses carry an
  ordered ``data`` dict); their methods/operators are interpreted from the AST
* ``raise X(...)`` -> ``PyRaise('X')`` (messages are never evaluated)

Anything outside the fragment raises ``Unsupported`` which rules turn into *cannot decide* (never into a
violation).  ``eval(expr, globals, table)`` inside the analysed code is modelled by parsing ``expr`` (an
input string chosen by the rule, not repository code) and evaluating it with the same interpreter with
``table`` as its name space -- which is what CPython does with unit expressions.
"""
import ast
import math
import re
from fractions import Fraction


class Unsupported(Exception):
    """Construct outside the interpreted fragment."""

    def __init__(self, node, why):
        super().__init__(why)
        self.node, self.why = node, why


class PyRaise(Exception):
    """A Python exception raised by the interpreted program."""

    def __init__(self, name, node=None):
        super().__init__(name)
        self.name, self.node = name, node


class _Return(Exception):
    def __init__(self, value):
        self.value = value


class _Break(Exception):
    pass


class _Continue(Exception):
    pass


# --------------------------------------------------------------------------------------- numbers
class Fl:
    """A Python float modelled exactly."""

    __slots__ = ('v',)

    def __init__(self, v):
        self.v = v.v if isinstance(v, Fl) else Fraction(v)

    def __eq__(self, o):
        if isinstance(o, Fl):
            return self.v == o.v
        if isinstance(o, (int, Fraction)) and not isinstance(o, bool):
            return self.v == o
        if isinstance(o, bool):
            return self.v == int(o)
        return NotImplemented

    def __hash__(self):
        return hash(self.v)

    def __repr__(self):
        return f'Fl({self.v})'


def is_num(x):
    return isinstance(x, (int, Fl)) and True


def frac(x):
    if isinstance(x, Fl):
        return x.v
    if isinstance(x, bool):
        return Fraction(int(x))
    if isinstance(x, int):
        return Fraction(x)
    raise TypeError(x)


def _iroot(n, q):
    """Exact integer q-th root of n >= 0 or None."""
    if n < 0:
        return None
    if n in (0, 1):
        return n
    r = round(n ** (1.0 / q))
    for c in (r - 1, r, r + 1):
        if c >= 0 and c ** q == n:
            return c
    lo, hi = 0, 1
    while hi ** q < n:
        hi *= 2
    while lo <= hi:
        mid = (lo + hi) // 2
        p = mid ** q
        if p == n:
            return mid
        if p < n:
            lo = mid + 1
        else:
            hi = mid - 1
    return None


def py_float_str(fr):
    """str() of the Python float whose exact value is the Fraction fr."""
    return repr(float(fr))


def num_binop(op, a, b, node=None):
    isf = isinstance(a, Fl) or isinstance(b, Fl)
    x, y = frac(a), frac(b)
    if isinstance(op, ast.Add):
        r = x + y
    elif isinstance(op, ast.Sub):
        r = x - y
    elif isinstance(op, ast.Mult):
        r = x * y
    elif isinstance(op, ast.Div):
        if y == 0:
            raise PyRaise('ZeroDivisionError', node)
        r = x / y
        isf = True
    elif isinstance(op, ast.FloorDiv):
        if y == 0:
            raise PyRaise('ZeroDivisionError', node)
        r = Fraction(math.floor(x / y))
    elif isinstance(op, ast.Mod):
        if y == 0:
            raise PyRaise('ZeroDivisionError', node)
        r = x - y * math.floor(x / y)
    elif isinstance(op, ast.Pow):
        if y.denominator == 1:
            e = int(y)
            if x == 0 and e < 0:
                raise PyRaise('ZeroDivisionError', node)
            if abs(e) > 64:
                raise Unsupported(node, 'exponent too large for the exact domain')
            r = x ** e
            if e < 0:
                isf = True
        else:
            q = y.denominator
            p = y.numerator
            if x < 0 or q > 12:
                raise Unsupported(node, 'fractional power outside the exact domain')
            rn, rd = _iroot(x.numerator, q), _iroot(x.denominator, q)
            if rn is None or rd is None:
                raise Unsupported(node, f'irrational power {x}**{y} (choose perfect-power samples)')
            r = Fraction(rn, rd) ** p
            isf = True
    else:
        raise Unsupported(node, f'operator {type(op).__name__} on numbers')
    if isf:
        return Fl(r)
    return int(r)


# --------------------------------------------------------------------------------------- objects
class ClassModel:
    def __init__(self, node):
        self.node = node
        self.name = node.name
        self.methods = {}
        self.dictlike = any(isinstance(b, ast.Name) and b.id in ('dict', 'OrderedDict') or
                            isinstance(b, ast.Attribute) and b.attr in ('OrderedDict',) for b in node.bases)
        for st in node.body:
            if isinstance(st, ast.FunctionDef):
                self.methods[st.name] = st
            elif isinstance(st, ast.Assign) and len(st.targets) == 1 and isinstance(st.targets[0], ast.Name) \
                    and isinstance(st.value, ast.Name) and st.value.id in self.methods:
                self.methods[st.targets[0].id] = self.methods[st.value.id]

    def __repr__(self):
        return f'<class {self.name}>'


class Obj:
    def __init__(self, cls):
        self.cls = cls
        self.attrs = {}
        self.data = {} if cls.dictlike else None

    def __repr__(self):
        if self.data is not None:
            return f'{self.cls.name}({self.data})'
        return f'<{self.cls.name} {self.attrs}>'


class NS:
    """Harness-provided name space object (stands for the ConfigParser instance ``_UNIT_LIB``)."""

    def __init__(self, **kw):
        self.__dict__.update(kw)


class Bound:
    def __init__(self, obj, fdef, name):
        self.obj, self.fdef, self.name = obj, fdef, name


class Fn:
    """A module-level function of the analysed module."""

    def __init__(self, fdef):
        self.fdef = fdef


_STR_METHODS = {'strip', 'rstrip', 'lstrip', 'split', 'partition', 'join', 'startswith', 'endswith',
                'replace', 'lower', 'upper', 'isdigit', 'isalpha', 'find', 'count', 'format'}
_LIST_METHODS = {'append', 'extend', 'index', 'copy', 'pop', 'insert', 'count', 'remove'}
_DICT_METHODS = {'items', 'keys', 'values', 'get', 'copy', 'setdefault', 'pop', 'update', 'clear'}
_SET_METHODS = {'add', 'remove', 'discard', 'copy'}
_PAT_METHODS = {'sub', 'findall', 'match', 'search', 'fullmatch'}
_RE_FUNCS = {'compile', 'sub', 'findall', 'match', 'search'}

_BINOP_DUNDER = {ast.Add: ('__add__', '__radd__'), ast.Sub: ('__sub__', '__rsub__'),
                 ast.Mult: ('__mul__', '__rmul__'), ast.Div: ('__truediv__', '__rtruediv__'),
                 ast.Pow: ('__pow__', '__rpow__'), ast.FloorDiv: ('__floordiv__', '__rfloordiv__'),
                 ast.Mod: ('__mod__', '__rmod__')}
_CMP_DUNDER = {ast.Eq: '__eq__', ast.NotEq: '__ne__', ast.Lt: '__lt__', ast.Gt: '__gt__',
               ast.LtE: '__le__', ast.GtE: '__ge__'}
_EXC_PARENTS = {'KeyError': 'LookupError', 'IndexError': 'LookupError', 'LookupError': 'Exception',
                'ZeroDivisionError': 'ArithmeticError', 'OverflowError': 'ArithmeticError',
                'ArithmeticError': 'Exception', 'TypeError': 'Exception', 'ValueError': 'Exception',
                'NameError': 'Exception', 'AttributeError': 'Exception', 'RuntimeError': 'Exception',
                'NotImplementedError': 'RuntimeError', 'Exception': 'BaseException'}


def exc_isa(name, base):
    """Is exception class *name* a subclass of *base* (builtin hierarchy; unknown names derive Exception)?"""
    for _ in range(8):
        if name == base:
            return True
        if name == 'BaseException' or name is None:
            return False
        name = _EXC_PARENTS.get(name, 'Exception')
    return False


class Interp:
    """Evaluator for one module.  ``globals_`` are harness-provided bindings that shadow module names."""

    MAX_STEPS = 400000

    def __init__(self, module, globals_=None):
        self.module = module
        self.classes = {}
        self.funcs = {}
        for st in module.tree.body:
            if isinstance(st, ast.ClassDef):
                self.classes[st.name] = ClassModel(st)
            elif isinstance(st, ast.FunctionDef):
                self.funcs[st.name] = Fn(st)
        self.globals = dict(globals_ or {})
        self.steps = 0
        self.float_strs = {}   # repr text of an emitted float -> its exact value
        self.trace = []        # (If/IfExp/While node, bool) decisions taken
        self.new_nodes = []    # Call nodes that instantiated module classes
        self.depth = 0

    # ------------------------------------------------------------------ names
    _BUILTINS = ('isinstance', 'float', 'int', 'str', 'len', 'abs', 'pow', 'all', 'any', 'zip', 'list',
                 'tuple', 'dict', 'range', 'enumerate', 'sum', 'min', 'max', 'round', 'sorted', 'reversed',
                 'bool', 'floor', 'repr', 'set', 'OrderedDict', 'pi')

    def lookup(self, name, env, node):
        if name in env:
            return env[name]
        if name in self.globals:
            return self.globals[name]
        if name in self.classes:
            return self.classes[name]
        if name in self.funcs:
            return self.funcs[name]
        if name in self._BUILTINS or name in _EXC_PARENTS or name == 'BaseException':
            return ('builtin', name)
        raise PyRaise('NameError', node)

    # ------------------------------------------------------------------ calls
    def call_def(self, fdef, args, kwargs, node=None):
        a = fdef.args
        if a.vararg or a.kwarg or a.kwonlyargs or a.posonlyargs:
            raise Unsupported(fdef, 'star/keyword-only parameters')
        names = [x.arg for x in a.args]
        env = {}
        if len(args) > len(names):
            raise PyRaise('TypeError', node)
        for n, v in zip(names, args):
            env[n] = v
        for k, v in kwargs.items():
            if k not in names or k in env:
                raise PyRaise('TypeError', node)
            env[k] = v
        ndef = len(a.defaults)
        for i, n in enumerate(names):
            if n not in env:
                j = i - (len(names) - ndef)
                if j < 0:
                    raise PyRaise('TypeError', node)
                env[n] = self.expr(a.defaults[j], {})
        self.depth += 1
        if self.depth > 60:
            raise Unsupported(fdef, 'recursion too deep')
        try:
            self.block(fdef.body, env)
        except _Return as r:
            return r.value
        finally:
            self.depth -= 1
        return None

    def instantiate(self, cls, args, kwargs, node):
        o = Obj(cls)
        if node is not None:
            self.new_nodes.append(node)
        init = cls.methods.get('__init__')
        if init is not None:
            self.call_def(init, [o] + list(args), kwargs, node)
        elif cls.dictlike:
            if kwargs or len(args) > 1:
                raise Unsupported(node, 'dict constructor with keywords')
            if args:
                src = args[0]
                if isinstance(src, Obj) and src.data is not None:
                    o.data.update(src.data)
                elif isinstance(src, dict):
                    o.data.update(src)
                else:
                    try:
                        for k, v in src:
                            o.data[k] = v
                    except (TypeError, ValueError):
                        raise PyRaise('TypeError', node)
        elif args or kwargs:
            raise PyRaise('TypeError', node)
        return o

    def call_value(self, f, args, kwargs, node):
        if isinstance(f, Bound):
            return self.call_def(f.fdef, [f.obj] + list(args), kwargs, node)
        if isinstance(f, Fn):
            return self.call_def(f.fdef, list(args), kwargs, node)
        if isinstance(f, ClassModel):
            return self.instantiate(f, args, kwargs, node)
        if isinstance(f, tuple) and len(f) == 2 and f[0] == 'builtin':
            return self.builtin(f[1], args, kwargs, node)
        if isinstance(f, tuple) and len(f) == 3 and f[0] == 'dictnative':
            return self.dict_native(f[1], f[2], args, node)
        if callable(f) and getattr(f, '_c06_native', False):
            return f(self, *args, **kwargs)
        if callable(f) and getattr(f, '_c06_plain', False):
            try:
                return f(*args, **kwargs)
            except (Unsupported, PyRaise):
                raise
            except Exception as e:
                raise PyRaise(type(e).__name__, node)
        raise Unsupported(node, f'call of {type(f).__name__}')

    def dict_native(self, obj, name, args, node):
        d = obj.data
        try:
            if name == '__getitem__':
                return d[args[0]]
            if name == '__setitem__':
                d[args[0]] = args[1]
                return None
            if name == '__contains__':
                return args[0] in d
            if name == '__len__':
                return len(d)
            if name in ('items', 'keys', 'values'):
                return list(getattr(d, name)())
            if name == 'get':
                return d.get(*args)
            if name == 'copy':
                o = Obj(obj.cls)
                o.data.update(d)
                o.attrs.update(obj.attrs)
                return o
            if name in ('pop', 'setdefault'):
                return getattr(d, name)(*args)
            if name == 'update':
                src = args[0]
                d.update(src.data if isinstance(src, Obj) else src)
                return None
        except KeyError:
            raise PyRaise('KeyError', node)
        except (TypeError, IndexError) as e:
            raise PyRaise(type(e).__name__, node)
        raise Unsupported(node, f'dict method {name}')

    def builtin(self, name, args, kwargs, node):
        if kwargs and name not in ('sorted', 'round', 'dict'):
            raise Unsupported(node, f'keyword arguments to {name}')
        try:
            if name == 'isinstance':
                return self.isinstance_(args[0], args[1], node)
            if name == 'float':
                x = args[0]
                if isinstance(x, (int, Fl)):
                    return Fl(frac(x))
                if isinstance(x, str):
                    try:
                        return Fl(Fraction(float(x)))
                    except ValueError:
                        raise PyRaise('ValueError', node)
                raise PyRaise('TypeError', node)
            if name == 'int':
                x = args[0]
                if isinstance(x, Fl):
                    return math.trunc(x.v)
                if isinstance(x, int):
                    return int(x)
                if isinstance(x, str):
                    try:
                        return int(x)
                    except ValueError:
                        raise PyRaise('ValueError', node)
                raise PyRaise('TypeError', node)
            if name in ('str', 'repr'):
                return self.to_str(args[0], node) if args else ''
            if name == 'bool':
                return self.truth(args[0], node)
            if name == 'len':
                x = args[0]
                if isinstance(x, Obj):
                    if x.data is None:
                        raise PyRaise('TypeError', node)
                    return len(x.data)
                return len(x)
            if name == 'abs':
                x = args[0]
                return Fl(abs(x.v)) if isinstance(x, Fl) else abs(x)
            if name == 'floor':
                return math.floor(frac(args[0]))
            if name == 'round':
                if len(args) != 1:
                    raise Unsupported(node, 'round with ndigits')
                x = frac(args[0])
                return round(x)
            if name == 'pow':
                if len(args) != 2:
                    raise Unsupported(node, 'three-argument pow')
                return self.binop(ast.Pow(), args[0], args[1], node)
            if name == 'all':
                return all(self.truth(v, node) for v in self.iterate(args[0], node))
            if name == 'any':
                return any(self.truth(v, node) for v in self.iterate(args[0], node))
            if name == 'zip':
                return list(zip(*[self.iterate(a, node) for a in args]))
            if name == 'list':
                return list(self.iterate(args[0], node)) if args else []
            if name == 'tuple':
                return tuple(self.iterate(args[0], node)) if args else ()
            if name == 'set':
                return set(self.iterate(args[0], node)) if args else set()
            if name in ('dict', 'OrderedDict'):
                d = {}
                if args:
                    src = args[0]
                    if isinstance(src, Obj) and src.data is not None:
                        d.update(src.data)
                    elif isinstance(src, dict):
                        d.update(src)
                    else:
                        for k, v in self.iterate(src, node):
                            d[k] = v
                d.update(kwargs)
                return d
            if name == 'range':
                return list(range(*[int(a) for a in args]))
            if name == 'enumerate':
                return list(enumerate(self.iterate(args[0], node), *[int(a) for a in args[1:]]))
            if name == 'sum':
                tot = args[1] if len(args) > 1 else 0
                for v in self.iterate(args[0], node):
                    tot = self.binop(ast.Add(), tot, v, node)
                return tot
            if name in ('min', 'max'):
                vals = list(self.iterate(args[0], node)) if len(args) == 1 else list(args)
                if not vals:
                    raise PyRaise('ValueError', node)
                key = frac if all(isinstance(v, (int, Fl)) for v in vals) else None
                return (min if name == 'min' else max)(vals, key=key)
            if name == 'sorted':
                vals = list(self.iterate(args[0], node))
                if kwargs:
                    raise Unsupported(node, 'sorted with key')
                key = frac if all(isinstance(v, (int, Fl)) for v in vals) else None
                return sorted(vals, key=key)
            if name == 'reversed':
                return list(reversed(list(self.iterate(args[0], node))))
            if name == 'pi':
                raise PyRaise('TypeError', node)
        except IndexError:
            raise PyRaise('TypeError', node)
        if name in _EXC_PARENTS or name == 'BaseException':
            return ('excinst', name)
        raise Unsupported(node, f'builtin {name}')

    def isinstance_(self, x, t, node):
        if isinstance(t, tuple) and not (len(t) == 2 and t[0] == 'builtin'):
            return any(self.isinstance_(x, tt, node) for tt in t)
        if isinstance(t, ClassModel):
            if not isinstance(x, Obj):
                return False
            return x.cls is t
        if isinstance(t, tuple) and t[0] == 'builtin':
            n = t[1]
            if n == 'str':
                return isinstance(x, str)
            if n == 'int':
                return isinstance(x, int) and not isinstance(x, Fl)
            if n == 'float':
                return isinstance(x, Fl)
            if n == 'bool':
                return isinstance(x, bool)
            if n in ('dict', 'OrderedDict'):
                return isinstance(x, dict) or (isinstance(x, Obj) and x.data is not None)
            if n == 'list':
                return isinstance(x, list)
            if n == 'tuple':
                return isinstance(x, tuple)
        raise Unsupported(node, 'isinstance against an unmodelled type')

    def to_str(self, x, node):
        if isinstance(x, bool) or x is None:
            return str(x)
        if isinstance(x, int):
            return str(x)
        if isinstance(x, Fl):
            t = py_float_str(x.v)
            # a CPython float survives str() -> parse exactly; remember the exact value behind the text
            if self.float_strs.setdefault(t, x.v) != x.v:
                raise Unsupported(node, 'two sample values share one float representation')
            return t
        if isinstance(x, str):
            return x
        if isinstance(x, Obj):
            m = x.cls.methods.get('__str__') or x.cls.methods.get('__repr__')
            if m is not None:
                return self.call_def(m, [x], {}, node)
        raise Unsupported(node, f'str() of {type(x).__name__}')

    def iterate(self, x, node):
        if isinstance(x, (list, tuple, str, set)):
            return list(x)
        if isinstance(x, dict):
            return list(x.keys())
        if isinstance(x, Obj) and x.data is not None:
            return list(x.data.keys())
        if isinstance(x, type({}.items())) or isinstance(x, type({}.keys())) or isinstance(x, type({}.values())):
            return list(x)
        raise PyRaise('TypeError', node)

    def truth(self, x, node):
        if isinstance(x, bool) or x is None:
            return bool(x)
        if isinstance(x, Fl):
            return x.v != 0
        if isinstance(x, (int, str, list, tuple, dict, set)):
            return bool(x)
        if isinstance(x, Obj):
            if x.data is not None:
                return bool(x.data)
            return True
        if isinstance(x, (ClassModel, Fn, Bound, NS)) or isinstance(x, re.Pattern):
            return True
        raise Unsupported(node, f'truth value of {type(x).__name__}')

    # ------------------------------------------------------------------ operators
    def binop(self, op, a, b, node):
        dn = _BINOP_DUNDER.get(type(op))
        if isinstance(a, Obj) or isinstance(b, Obj):
            if dn is None:
                raise Unsupported(node, 'operator on objects')
            if isinstance(a, Obj):
                m = a.cls.methods.get(dn[0])
                if m is not None:
                    return self.call_def(m, [a, b], {}, node)
            if isinstance(b, Obj):
                m = b.cls.methods.get(dn[1])
                if m is not None:
                    return self.call_def(m, [b, a], {}, node)
            raise PyRaise('TypeError', node)
        if isinstance(a, (int, Fl)) and isinstance(b, (int, Fl)) and not isinstance(a, str):
            return num_binop(op, a, b, node)
        if isinstance(op, ast.Add):
            if isinstance(a, str) and isinstance(b, str):
                return a + b
            if isinstance(a, list) and isinstance(b, list):
                return a + b
            if isinstance(a, tuple) and isinstance(b, tuple):
                return a + b
            raise PyRaise('TypeError', node)
        if isinstance(op, ast.Mult):
            if isinstance(a, (str, list, tuple)) and isinstance(b, int) and not isinstance(b, Fl):
                return a * b
            if isinstance(b, (str, list, tuple)) and isinstance(a, int) and not isinstance(a, Fl):
                return a * b
            raise PyRaise('TypeError', node)
        if isinstance(op, ast.Mod) and isinstance(a, str):
            raise Unsupported(node, 'percent formatting')
        if a is None or b is None or isinstance(a, (str, dict, list, tuple)) or isinstance(b, (str, dict, list, tuple)):
            raise PyRaise('TypeError', node)
        raise Unsupported(node, f'operator on {type(a).__name__}, {type(b).__name__}')

    def compare(self, op, a, b, node):
        if isinstance(op, (ast.Is, ast.IsNot)):
            r = (a is b) or (a is None and b is None) or \
                (isinstance(a, bool) and isinstance(b, bool) and a == b)
            return r if isinstance(op, ast.Is) else not r
        if isinstance(op, (ast.In, ast.NotIn)):
            if isinstance(b, Obj):
                if b.data is None:
                    raise PyRaise('TypeError', node)
                r = a in b.data
            elif isinstance(b, (dict, list, tuple, set, str)):
                try:
                    r = a in b
                except TypeError:
                    raise PyRaise('TypeError', node)
            else:
                raise PyRaise('TypeError', node)
            return r if isinstance(op, ast.In) else not r
        if isinstance(a, Obj):
            m = a.cls.methods.get(_CMP_DUNDER[type(op)])
            if m is not None:
                return self.call_def(m, [a, b], {}, node)
            if isinstance(op, ast.NotEq):
                m = a.cls.methods.get('__eq__')
                if m is not None:
                    return not self.truth(self.call_def(m, [a, b], {}, node), node)
            if a.data is not None and isinstance(op, (ast.Eq, ast.NotEq)):
                other = b.data if isinstance(b, Obj) else b
                r = a.data == other
                return r if isinstance(op, ast.Eq) else not r
            if isinstance(op, ast.Eq):
                return a is b
            if isinstance(op, ast.NotEq):
                return a is not b
            raise PyRaise('TypeError', node)
        if isinstance(op, ast.Eq):
            return self.py_eq(a, b)
        if isinstance(op, ast.NotEq):
            return not self.py_eq(a, b)
        # ordering
        if isinstance(a, (int, Fl)) and isinstance(b, (int, Fl)):
            x, y = frac(a), frac(b)
        elif isinstance(a, str) and isinstance(b, str):
            x, y = a, b
        elif isinstance(a, (list, tuple)) and type(a) is type(b):
            try:
                x, y = [frac(v) for v in a], [frac(v) for v in b]
            except TypeError:
                raise Unsupported(node, 'ordering of non-numeric sequences')
        else:
            raise PyRaise('TypeError', node)
        if isinstance(op, ast.Lt):
            return x < y
        if isinstance(op, ast.LtE):
            return x <= y
        if isinstance(op, ast.Gt):
            return x > y
        if isinstance(op, ast.GtE):
            return x >= y
        raise Unsupported(node, 'comparison operator')

    def py_eq(self, a, b):
        if isinstance(a, Obj) or isinstance(b, Obj):
            if isinstance(a, Obj) and isinstance(b, Obj) and a.data is not None and b.data is not None:
                return a.data == b.data
            return a is b
        if isinstance(a, (list, tuple)) and isinstance(b, (list, tuple)):
            if type(a) is not type(b) or len(a) != len(b):
                return False
            return all(self.py_eq(x, y) for x, y in zip(a, b))
        try:
            return bool(a == b)
        except Exception:
            return False

    # ------------------------------------------------------------------ expressions
    def tick(self, node):
        self.steps += 1
        if self.steps > self.MAX_STEPS:
            raise Unsupported(node, 'step budget exhausted')

    def expr(self, e, env):
        self.tick(e)
        if isinstance(e, ast.Constant):
            v = e.value
            if isinstance(v, float):
                return Fl(self.float_strs.get(repr(v), Fraction(v)))
            if isinstance(v, (int, str, bool)) or v is None:
                return v
            raise Unsupported(e, 'constant kind')
        if isinstance(e, ast.Name):
            v = self.lookup(e.id, env, e)
            if isinstance(v, tuple) and v[:1] == ('builtin',) and v[1] == 'pi':
                return Fl(Fraction(355, 113))   # any fixed rational stands for pi
            return v
        if isinstance(e, ast.Attribute):
            return self.getattr_(self.expr(e.value, env), e.attr, e)
        if isinstance(e, ast.BinOp):
            return self.binop(e.op, self.expr(e.left, env), self.expr(e.right, env), e)
        if isinstance(e, ast.UnaryOp):
            v = self.expr(e.operand, env)
            if isinstance(e.op, ast.Not):
                return not self.truth(v, e)
            if isinstance(e.op, ast.USub):
                if isinstance(v, Fl):
                    return Fl(-v.v)
                if isinstance(v, int):
                    return -v
                raise PyRaise('TypeError', e)
            if isinstance(e.op, ast.UAdd) and isinstance(v, (int, Fl)):
                return v
            raise Unsupported(e, 'unary operator')
        if isinstance(e, ast.BoolOp):
            v = None
            for sub in e.values:
                v = self.expr(sub, env)
                t = self.truth(v, e)
                if isinstance(e.op, ast.And) and not t:
                    return v
                if isinstance(e.op, ast.Or) and t:
                    return v
            return v
        if isinstance(e, ast.Compare):
            left = self.expr(e.left, env)
            for op, right in zip(e.ops, e.comparators):
                r = self.expr(right, env)
                if not self.truth(self.compare(op, left, r, e), e):
                    return False
                left = r
            return True
        if isinstance(e, ast.Call):
            return self.call(e, env)
        if isinstance(e, ast.IfExp):
            t = self.truth(self.expr(e.test, env), e)
            self.trace.append((e, t))
            return self.expr(e.body if t else e.orelse, env)
        if isinstance(e, ast.Tuple):
            return tuple(self.expr(x, env) for x in e.elts)
        if isinstance(e, ast.List):
            return [self.expr(x, env) for x in e.elts]
        if isinstance(e, ast.Set):
            return set(self.expr(x, env) for x in e.elts)
        if isinstance(e, ast.Dict):
            d = {}
            for k, v in zip(e.keys, e.values):
                if k is None:
                    raise Unsupported(e, 'dict unpacking')
                d[self.expr(k, env)] = self.expr(v, env)
            return d
        if isinstance(e, ast.Subscript):
            return self.subscript(self.expr(e.value, env), e.slice, env, e)
        if isinstance(e, (ast.ListComp, ast.GeneratorExp, ast.SetComp)):
            out = []
            self.comp(e.generators, 0, dict(env), lambda en: out.append(self.expr(e.elt, en)))
            return set(out) if isinstance(e, ast.SetComp) else out
        if isinstance(e, ast.DictComp):
            d = {}

            def put(en):
                d[self.expr(e.key, en)] = self.expr(e.value, en)
            self.comp(e.generators, 0, dict(env), put)
            return d
        if isinstance(e, ast.JoinedStr):
            parts = []
            for v in e.values:
                if isinstance(v, ast.Constant):
                    parts.append(str(v.value))
                elif isinstance(v, ast.FormattedValue):
                    if v.format_spec is not None:
                        raise Unsupported(e, 'format spec in f-string')
                    parts.append(self.to_str(self.expr(v.value, env), e))
            return ''.join(parts)
        raise Unsupported(e, f'expression {type(e).__name__}')

    def comp(self, gens, i, env, emit):
        if i == len(gens):
            emit(env)
            return
        g = gens[i]
        if g.is_async:
            raise Unsupported(g.iter, 'async comprehension')
        for v in self.iterate(self.expr(g.iter, env), g.iter):
            self.assign(g.target, v, env)
            if all(self.truth(self.expr(c, env), c) for c in g.ifs):
                self.comp(gens, i + 1, env, emit)

    def getattr_(self, v, attr, node):
        if isinstance(v, Obj):
            if attr in v.attrs:
                return v.attrs[attr]
            m = v.cls.methods.get(attr)
            if m is not None:
                return Bound(v, m, attr)
            if v.data is not None and (attr in _DICT_METHODS or attr in ('__getitem__', '__setitem__')):
                return ('dictnative', v, attr)
            raise PyRaise('AttributeError', node)
        if isinstance(v, NS):
            if attr in v.__dict__:
                return v.__dict__[attr]
            raise PyRaise('AttributeError', node)
        if isinstance(v, tuple) and v[:1] == ('builtin',) and v[1] in ('dict', 'OrderedDict'):
            return ('dictclass', attr)
        if v is re and attr in _RE_FUNCS:
            return _plain(getattr(re, attr))
        ok = (isinstance(v, str) and attr in _STR_METHODS) or (isinstance(v, list) and attr in _LIST_METHODS) \
            or (isinstance(v, dict) and attr in _DICT_METHODS) or (isinstance(v, set) and attr in _SET_METHODS) \
            or (isinstance(v, re.Pattern) and attr in _PAT_METHODS)
        if ok:
            f = getattr(v, attr)
            if isinstance(v, dict) and attr in ('items', 'keys', 'values'):
                return _plain(lambda f=f: list(f()))
            return _plain(f)
        if isinstance(v, (int, Fl, str, list, dict, tuple, set)) or v is None:
            if isinstance(v, (str, list, dict, set)):
                raise Unsupported(node, f'method {attr} of {type(v).__name__}')
            raise PyRaise('AttributeError', node)
        raise Unsupported(node, f'attribute {attr} of {type(v).__name__}')

    def call(self, e, env):
        if any(isinstance(a, ast.Starred) for a in e.args) or any(k.arg is None for k in e.keywords):
            raise Unsupported(e, 'star arguments')
        f = self.expr(e.func, env)
        args = [self.expr(a, env) for a in e.args]
        kwargs = {k.arg: self.expr(k.value, env) for k in e.keywords}
        if isinstance(f, tuple) and len(f) == 2 and f[0] == 'dictclass':
            if args and isinstance(args[0], Obj) and args[0].data is not None:
                return self.dict_native(args[0], f[1], args[1:], e)
            raise Unsupported(e, 'unbound dict method on a non-dict object')
        if isinstance(f, tuple) and len(f) == 2 and f[0] == 'builtin' and f[1] in _EXC_PARENTS:
            return ('excinst', f[1])
        for a in args:
            if isinstance(a, Fl) and callable(f) and getattr(f, '_c06_plain', False):
                raise Unsupported(e, 'float passed to a native method')
        return self.call_value(f, args, kwargs, e)

    def subscript(self, v, sl, env, node):
        if isinstance(sl, ast.Slice):
            def part(x):
                if x is None:
                    return None
                r = self.expr(x, env)
                if isinstance(r, Fl) or not isinstance(r, int):
                    raise PyRaise('TypeError', node)
                return r
            s = slice(part(sl.lower), part(sl.upper), part(sl.step))
            if isinstance(v, (str, list, tuple)):
                return v[s]
            raise PyRaise('TypeError', node)
        k = self.expr(sl, env)
        if isinstance(v, Obj):
            m = v.cls.methods.get('__getitem__')
            if m is not None:
                return self.call_def(m, [v, k], {}, node)
            if v.data is not None:
                return self.dict_native(v, '__getitem__', [k], node)
            raise PyRaise('TypeError', node)
        if isinstance(v, dict):
            try:
                return v[k]
            except KeyError:
                raise PyRaise('KeyError', node)
            except TypeError:
                raise PyRaise('TypeError', node)
        if isinstance(v, (list, tuple, str)):
            if isinstance(k, Fl) or not isinstance(k, int):
                raise PyRaise('TypeError', node)
            try:
                return v[k]
            except IndexError:
                raise PyRaise('IndexError', node)
        raise PyRaise('TypeError', node)

    # ------------------------------------------------------------------ statements
    def assign(self, tgt, val, env):
        if isinstance(tgt, ast.Name):
            if tgt.id in env.get('__globals__', ()):
                self.globals[tgt.id] = val
            else:
                env[tgt.id] = val
        elif isinstance(tgt, (ast.Tuple, ast.List)):
            vals = self.iterate(val, tgt)
            if any(isinstance(t, ast.Starred) for t in tgt.elts):
                raise Unsupported(tgt, 'starred assignment')
            if len(vals) != len(tgt.elts):
                raise PyRaise('ValueError', tgt)
            for t, v in zip(tgt.elts, vals):
                self.assign(t, v, env)
        elif isinstance(tgt, ast.Attribute):
            o = self.expr(tgt.value, env)
            if isinstance(o, Obj):
                o.attrs[tgt.attr] = val
            elif isinstance(o, NS):
                o.__dict__[tgt.attr] = val
            else:
                raise PyRaise('AttributeError', tgt)
        elif isinstance(tgt, ast.Subscript):
            o = self.expr(tgt.value, env)
            if isinstance(tgt.slice, ast.Slice):
                raise Unsupported(tgt, 'slice assignment')
            k = self.expr(tgt.slice, env)
            if isinstance(o, Obj):
                m = o.cls.methods.get('__setitem__')
                if m is not None:
                    self.call_def(m, [o, k, val], {}, tgt)
                elif o.data is not None:
                    o.data[k] = val
                else:
                    raise PyRaise('TypeError', tgt)
            elif isinstance(o, dict):
                o[k] = val
            elif isinstance(o, list):
                try:
                    o[k] = val
                except (IndexError, TypeError) as ex:
                    raise PyRaise(type(ex).__name__, tgt)
            else:
                raise PyRaise('TypeError', tgt)
        else:
            raise Unsupported(tgt, 'assignment target')

    def block(self, body, env):
        for st in body:
            self.stmt(st, env)

    def exc_matches(self, handler, exc, env):
        if handler.type is None:
            return True
        t = handler.type
        names = []
        for n in (t.elts if isinstance(t, ast.Tuple) else [t]):
            if isinstance(n, ast.Name):
                names.append(n.id)
            elif isinstance(n, ast.Attribute):
                names.append(n.attr)
            else:
                raise Unsupported(handler, 'exception class expression')
        return any(self.exc_isa(exc.name, n) for n in names)

    def exc_isa(self, name, base):
        """Subclass test that also knows exception classes defined in the analysed module."""
        for _ in range(8):
            c = self.classes.get(name)
            if c is None:
                return exc_isa(name, base)
            if name == base:
                return True
            bases = [b.id for b in c.node.bases if isinstance(b, ast.Name)]
            if not bases:
                return False
            name = bases[0]
        return False

    def stmt(self, st, env):
        self.tick(st)
        if isinstance(st, ast.Expr):
            if isinstance(st.value, ast.Constant):
                return
            self.expr(st.value, env)
        elif isinstance(st, ast.Assign):
            v = self.expr(st.value, env)
            for t in st.targets:
                self.assign(t, v, env)
        elif isinstance(st, ast.AnnAssign):
            if st.value is not None:
                self.assign(st.target, self.expr(st.value, env), env)
        elif isinstance(st, ast.AugAssign):
            if isinstance(st.target, ast.Name):
                cur = self.lookup(st.target.id, env, st)
            else:
                cur = self.expr(st.target, env)
            self.assign(st.target, self.binop(st.op, cur, self.expr(st.value, env), st), env)
        elif isinstance(st, ast.If):
            t = self.truth(self.expr(st.test, env), st)
            self.trace.append((st, t))
            self.block(st.body if t else st.orelse, env)
        elif isinstance(st, ast.For):
            broke = False
            for v in self.iterate(self.expr(st.iter, env), st):
                self.assign(st.target, v, env)
                try:
                    self.block(st.body, env)
                except _Break:
                    broke = True
                    break
                except _Continue:
                    continue
            if not broke:
                self.block(st.orelse, env)
        elif isinstance(st, ast.While):
            broke = False
            while self.truth(self.expr(st.test, env), st):
                self.tick(st)
                try:
                    self.block(st.body, env)
                except _Break:
                    broke = True
                    break
                except _Continue:
                    continue
            if not broke:
                self.block(st.orelse, env)
        elif isinstance(st, ast.Return):
            raise _Return(self.expr(st.value, env) if st.value is not None else None)
        elif isinstance(st, ast.Raise):
            if st.exc is None:
                cur = env.get('__exc__')
                if cur is None:
                    raise Unsupported(st, 'bare raise outside handler')
                raise cur
            x = st.exc
            f = x.func if isinstance(x, ast.Call) else x
            if isinstance(f, ast.Name):
                nm = f.id
                if nm in env and isinstance(env[nm], PyRaise):
                    raise env[nm]
                raise PyRaise(nm, st)
            if isinstance(f, ast.Attribute):
                raise PyRaise(f.attr, st)
            raise Unsupported(st, 'raise expression')
        elif isinstance(st, ast.Try):
            try:
                try:
                    self.block(st.body, env)
                except PyRaise as ex:
                    for h in st.handlers:
                        if self.exc_matches(h, ex, env):
                            if h.name:
                                env[h.name] = ex
                            old = env.get('__exc__')
                            env['__exc__'] = ex
                            try:
                                self.block(h.body, env)
                            finally:
                                env['__exc__'] = old
                            break
                    else:
                        raise
                else:
                    self.block(st.orelse, env)
            finally:
                if st.finalbody:
                    self.block(st.finalbody, env)
        elif isinstance(st, ast.Pass):
            return
        elif isinstance(st, ast.Break):
            raise _Break()
        elif isinstance(st, ast.Continue):
            raise _Continue()
        elif isinstance(st, ast.Global):
            env.setdefault('__globals__', set()).update(st.names)
        elif isinstance(st, ast.Assert):
            if not self.truth(self.expr(st.test, env), st):
                raise PyRaise('AssertionError', st)
        else:
            raise Unsupported(st, f'statement {type(st).__name__}')

    # ------------------------------------------------------------------ entry points
    def call_func(self, name, *args, **kwargs):
        f = self.funcs.get(name)
        if f is None:
            raise Unsupported(None, f'module function {name} not found')
        return self.call_def(f.fdef, list(args), kwargs)

    def call_method(self, obj, name, *args):
        m = obj.cls.methods.get(name)
        if m is None:
            raise PyRaise('AttributeError')
        return self.call_def(m, [obj] + list(args), {})

    def new(self, clsname, *args, **kwargs):
        c = self.classes.get(clsname)
        if c is None:
            raise Unsupported(None, f'class {clsname} not found')
        return self.instantiate(c, args, kwargs, None)

    def eval_str(self, text, table):
        """Model of CPython ``eval(text, {'__builtins__': None}, table)`` for unit expressions."""
        try:
            tree = ast.parse(text.strip(), mode='eval')
        except SyntaxError:
            raise PyRaise('SyntaxError')
        env = {}
        names = table.data if isinstance(table, Obj) else table
        for n in ast.walk(tree):
            if isinstance(n, ast.Name):
                if n.id in names:
                    env[n.id] = names[n.id]
                elif n.id in self.eval_extra:
                    env[n.id] = self.eval_extra[n.id]
                else:
                    raise PyRaise('NameError')
            elif isinstance(n, (ast.Call, ast.Attribute, ast.Lambda, ast.Subscript)):
                raise PyRaise('TypeError')
        saved = self.globals
        try:
            return self.expr(tree.body, env)
        finally:
            self.globals = saved

    eval_extra = {}


def _plain(f):
    def g(*a, **k):
        return f(*a, **k)
    g._c06_plain = True
    return g


def native(f):
    """Mark a harness function ``f(interp, *args)`` as callable from interpreted code."""
    f._c06_native = True
    return f


@native
def model_eval(interp, text, globs=None, locs=None):
    if not isinstance(text, str):
        raise PyRaise('TypeError')
    table = locs if locs is not None else (globs or {})
    extra = {}
    if isinstance(globs, dict):
        extra = {k: v for k, v in globs.items() if k != '__builtins__'}
    old = interp.eval_extra
    interp.eval_extra = extra
    try:
        return interp.eval_str(text, table)
    finally:
        interp.eval_extra = old
