"""Exact-rational evaluator for the interpolation kernels of OpenMDAO (used by rules/C15.py).

The rule hands the *AST* of a table class (``__init__``, ``bracket``, ``evaluate``, ``interpolate``,
``compute_coeffs`` ...) to this evaluator together with small symbolic tables whose grid coordinates,
table values and query points are exact rationals (``fractions.Fraction``).  Nothing of /repo is
imported or executed by CPython: every statement is interpreted here, arrays are modelled by ``Arr``
(row-major list of rationals + shape) and only the numpy vocabulary the kernels use is modelled.

Three-valued discipline:

* ``Unsupported``  -- a construct outside the modelled fragment was *needed*  -> the rule says `unsure`;
* ``UNK``          -- an unknown value (unmodelled call, 0/0, uninitialised ``np.empty`` cell); it
                      propagates through arithmetic and is only an error if it reaches the checked
                      result or a branch condition (-> ``Unsupported``);
* ``Fault``        -- the interpreted code itself went wrong on an admissible input (index outside the
                      table, computed negative index that would wrap around, runaway loop);
* ``Raised``       -- the interpreted code executed a ``raise``.
"""
import ast
import itertools
from fractions import Fraction

from . import astx
from .core import AnalysisError


class Unsupported(Exception):
    def __init__(self, why, node=None):
        super().__init__(why)
        self.why, self.node = why, node


class Fault(Exception):
    def __init__(self, why, node=None):
        super().__init__(why)
        self.why, self.node = why, node


class Raised(Exception):
    def __init__(self, name, node=None, value=None, bases=()):
        super().__init__(name)
        self.name, self.node, self.value, self.bases = name, node, value, tuple(bases)


class _Unk:
    __slots__ = ()

    def __repr__(self):
        return 'UNK' if self is UNK else 'JUNK'

    def __bool__(self):
        raise Unsupported('truth value of an unknown quantity')


UNK = _Unk()
JUNK = _Unk()      # content of a never-assigned np.empty cell: unknown, and a defect if it reaches a result


def isunk(v):
    return v.__class__ is _Unk


def _unk_of(a, b):
    """Unknown resulting from combining a and b (uninitialised memory stays recognisable)."""
    if a is UNK or b is UNK:
        return UNK
    return JUNK


def is_num(v):
    return isinstance(v, (int, Fraction)) and not isinstance(v, bool)


def num(v):
    """Python constant -> exact number."""
    if isinstance(v, bool):
        return v
    if isinstance(v, int):
        return v
    if isinstance(v, float):
        if v != v or v in (float('inf'), float('-inf')):
            return UNK
        return Fraction(v)
    return v


# ------------------------------------------------------------------------------------------ arrays
def _size(shape):
    n = 1
    for s in shape:
        n *= s
    return n


class Arr:
    """n-d array of exact numbers / bools / UNK, row-major."""
    __slots__ = ('data', 'shape', 'view')

    def __init__(self, data, shape, view=False):
        self.data = data
        self.shape = tuple(shape)
        self.view = view
        if len(data) != _size(self.shape):
            raise Unsupported(f'array of {len(data)} elements cannot have shape {self.shape}')

    @property
    def ndim(self):
        return len(self.shape)

    @property
    def size(self):
        return len(self.data)

    def nested(self):
        def rec(off, dims):
            if not dims:
                return self.data[off]
            step = _size(dims[1:])
            return [rec(off + i * step, dims[1:]) for i in range(dims[0])]
        return rec(0, self.shape)

    def copy(self):
        return Arr(list(self.data), self.shape)

    def __repr__(self):
        return f'Arr{self.shape}{self.data if self.size <= 12 else "..."}'


def from_nested(obj):
    """Nested lists/tuples/Arr/scalars -> Arr (np.array semantics for regular nests)."""
    if isinstance(obj, Arr):
        return obj.copy()
    if isinstance(obj, (list, tuple)):
        subs = [from_nested(o) if isinstance(o, (list, tuple, Arr)) else o for o in obj]
        if not subs:
            return Arr([], (0,))
        if all(isinstance(s, Arr) for s in subs):
            sh = subs[0].shape
            if any(s.shape != sh for s in subs):
                raise Unsupported('ragged array literal')
            data = []
            for s in subs:
                data.extend(s.data)
            return Arr(data, (len(subs),) + sh)
        if any(isinstance(s, Arr) for s in subs):
            # mixture of 0-d and arrays: accept size-1 arrays as scalars
            flat = []
            for s in subs:
                if isinstance(s, Arr):
                    if s.size != 1:
                        raise Unsupported('ragged array literal')
                    flat.append(s.data[0])
                else:
                    flat.append(s)
            return Arr(flat, (len(flat),))
        return Arr(list(subs), (len(subs),))
    return Arr([obj], ())


def as_arr(v):
    if isinstance(v, Arr):
        return v
    if isinstance(v, (list, tuple)):
        return from_nested(v)
    return Arr([v], ())


def _bshape(sa, sb):
    n = max(len(sa), len(sb))
    a = (1,) * (n - len(sa)) + tuple(sa)
    b = (1,) * (n - len(sb)) + tuple(sb)
    out = []
    for x, y in zip(a, b):
        if x == y or y == 1:
            out.append(x)
        elif x == 1:
            out.append(y)
        else:
            raise Fault(f'operands of shapes {tuple(sa)} and {tuple(sb)} cannot be broadcast together')
    return tuple(out)


def broadcast_flat(v, shape):
    """Elements of v broadcast to *shape*, row-major."""
    shape = tuple(shape)
    n = _size(shape)
    if not isinstance(v, Arr):
        return [v] * n
    if v.shape == shape:
        return v.data
    if v.size == 1:
        return [v.data[0]] * n
    if len(v.shape) > len(shape):
        # allow leading 1s to be dropped
        lead = len(v.shape) - len(shape)
        if all(s == 1 for s in v.shape[:lead]):
            return broadcast_flat(Arr(v.data, v.shape[lead:]), shape)
        raise Fault(f'cannot broadcast shape {v.shape} to {shape}')
    vs = (1,) * (len(shape) - len(v.shape)) + v.shape
    for a, b in zip(vs, shape):
        if a != b and a != 1:
            raise Fault(f'cannot broadcast shape {v.shape} to {shape}')
    strides = []
    st = 1
    for a in reversed(vs):
        strides.append(0 if a == 1 else st)
        st *= a
    strides.reverse()
    out = []
    for idx in itertools.product(*[range(s) for s in shape]):
        off = 0
        for i, s in zip(idx, strides):
            off += i * s
        out.append(v.data[off])
    return out


def _scalar_op(op, a, b, node=None):
    ta, tb = a.__class__, b.__class__
    if (ta is Fraction or ta is int) and (tb is Fraction or tb is int):
        if op is ast.Mult:
            return a * b
        if op is ast.Add:
            return a + b
        if op is ast.Sub:
            return a - b
    if isunk(a) or isunk(b):
        return _unk_of(a, b)
    if isinstance(a, bool):
        a = int(a)
    if isinstance(b, bool):
        b = int(b)
    if op is ast.Add:
        if isinstance(a, str) or isinstance(b, str):
            return 'STR'
        return a + b
    if op is ast.Sub:
        return a - b
    if op is ast.Mult:
        if isinstance(a, (list, tuple)) and isinstance(b, int):
            return a * b
        if isinstance(b, (list, tuple)) and isinstance(a, int):
            return b * a
        return a * b
    if op is ast.Div:
        if b == 0:
            return UNK      # nan / inf of the floating point original
        return Fraction(a) / b
    if op is ast.FloorDiv:
        if b == 0:
            return UNK
        return a // b
    if op is ast.Mod:
        if isinstance(a, str):
            return 'STR'
        if b == 0:
            return UNK
        return a % b
    if op in (ast.BitOr, ast.BitAnd, ast.BitXor):
        if isinstance(a, int) and isinstance(b, int):       # bools were converted to 0/1 above
            r = (a | b) if op is ast.BitOr else (a & b) if op is ast.BitAnd else (a ^ b)
            return bool(r) if r in (0, 1) and a in (0, 1) and b in (0, 1) else r
        raise Unsupported('bitwise operator on non-integers', node)
    if op is ast.Pow:
        if isinstance(b, int) or (isinstance(b, Fraction) and b.denominator == 1):
            b = int(b)
            if b < 0 and a == 0:
                return UNK
            return Fraction(a) ** b if b < 0 else a ** b
        return UNK
    raise Unsupported(f'binary operator {op.__name__}', node)


def matmul(a, b, node=None):
    if isunk(a) or isunk(b):
        return UNK
    a, b = as_arr(a), as_arr(b)
    spec = {(2, 2): 'ij,jk->ik', (1, 2): 'j,jk->k', (2, 1): 'ij,j->i', (1, 1): 'i,i->'}.get((a.ndim, b.ndim))
    if spec is None:
        raise Unsupported('matrix product of arrays with these dimensions', node)
    return einsum(spec, (a, b), node)


def binop(op, a, b, node=None):
    if op is ast.MatMult:
        return matmul(a, b, node)
    ta, tb = a.__class__, b.__class__
    if (ta is Fraction or ta is int) and (tb is Fraction or tb is int):
        if op is ast.Mult:
            return a * b
        if op is ast.Add:
            return a + b
        if op is ast.Sub:
            return a - b
        return _scalar_op(op, a, b, node)
    if isinstance(a, Arr) or isinstance(b, Arr):
        if isinstance(a, (list, tuple)) or isinstance(b, (list, tuple)):
            a, b = as_arr(a), as_arr(b)
        sa = a.shape if isinstance(a, Arr) else ()
        sb = b.shape if isinstance(b, Arr) else ()
        if sa == sb:
            return Arr([_scalar_op(op, x, y, node) for x, y in zip(a.data, b.data)], sa)
        if not isinstance(b, Arr):
            return Arr([_scalar_op(op, x, b, node) for x in a.data], sa)
        if not isinstance(a, Arr):
            return Arr([_scalar_op(op, a, y, node) for y in b.data], sb)
        sh = _bshape(sa, sb)
        fa, fb = broadcast_flat(a, sh), broadcast_flat(b, sh)
        return Arr([_scalar_op(op, x, y, node) for x, y in zip(fa, fb)], sh)
    if isunk(a) or isunk(b):
        return _unk_of(a, b)
    if isinstance(a, (list, tuple)) and isinstance(b, (list, tuple)) and op is ast.Add:
        return a + b
    if not (is_num(a) or isinstance(a, (bool, str, list, tuple))) or \
            not (is_num(b) or isinstance(b, (bool, str, list, tuple))):
        return UNK
    return _scalar_op(op, a, b, node)


_CMP = {ast.Lt: lambda a, b: a < b, ast.LtE: lambda a, b: a <= b, ast.Gt: lambda a, b: a > b,
        ast.GtE: lambda a, b: a >= b, ast.Eq: lambda a, b: a == b, ast.NotEq: lambda a, b: a != b}


def _scalar_cmp(op, a, b):
    if isunk(a) or isunk(b):
        return UNK
    try:
        return _CMP[op](a, b)
    except TypeError:
        if op is ast.Eq:
            return False
        if op is ast.NotEq:
            return True
        return UNK


def compare(op, a, b, node=None):
    if op in (ast.Is, ast.IsNot):
        r = (a is b) or (a is None and b is None)
        if isunk(a) or isunk(b):
            other = b if isunk(a) else a
            if other is None:
                return UNK
            r = False
        return r if op is ast.Is else (not r)
    if op in (ast.In, ast.NotIn):
        if isunk(a) or isunk(b):
            return UNK
        if isinstance(b, Arr):
            r = a in b.data
        elif isinstance(b, (list, tuple, set, frozenset, dict, str, range)):
            try:
                r = a in b
            except TypeError:
                raise Unsupported('unhashable membership test', node)
        else:
            return UNK
        return r if op is ast.In else (not r)
    if op not in _CMP:
        raise Unsupported('comparison operator', node)
    if isinstance(a, Arr) or isinstance(b, Arr):
        sa = a.shape if isinstance(a, Arr) else ()
        sb = b.shape if isinstance(b, Arr) else ()
        sh = _bshape(sa, sb)
        fa, fb = broadcast_flat(a, sh), broadcast_flat(b, sh)
        return Arr([_scalar_cmp(op, x, y) for x, y in zip(fa, fb)], sh)
    return _scalar_cmp(op, a, b)


def truth(v, node=None):
    if isunk(v):
        raise Unsupported('branch on an unknown quantity', node)
    if isinstance(v, Arr):
        if v.size != 1:
            # numpy: ValueError "The truth value of an array with more than one element is ambiguous"
            raise Fault(f'truth value of an array with {v.size} elements is ambiguous (ValueError in numpy)', node)
        return truth(v.data[0], node)
    if isinstance(v, (Obj, ClassVal, FuncVal, BoundMethod)):
        return True
    return bool(v)


# ---------------------------------------------------------------------------------------- indexing
def _expand(arr, idx, node):
    comps = list(idx) if isinstance(idx, tuple) else [idx]
    if any(c is None for c in comps):
        return None      # np.newaxis: only used for derivative bookkeeping
    n_ell = sum(1 for c in comps if c is Ellipsis)
    if n_ell > 1:
        raise Unsupported('two ellipses in an index', node)
    n_real = len(comps) - n_ell
    if n_real > arr.ndim:
        raise Fault(f'too many indices ({n_real}) for an array of dimension {arr.ndim}', node)
    if n_ell:
        i = comps.index(Ellipsis)
        comps[i:i + 1] = [slice(None)] * (arr.ndim - n_real)
    else:
        comps += [slice(None)] * (arr.ndim - n_real)
    out = []
    for c in comps:
        if isinstance(c, (list, tuple)):
            c = from_nested(c)
        if isinstance(c, Fraction):
            if c.denominator != 1:
                raise Fault(f'non-integer index {c}', node)
            c = int(c)
        if isinstance(c, Arr) and c.ndim == 0:
            c = c.data[0]
        out.append(c)
    return out


def _axis_int(i, n, node):
    if isunk(i):
        raise Unsupported('unknown index', node)
    if isinstance(i, Fraction):
        if i.denominator != 1:
            raise Fault(f'non-integer index {i}', node)
        i = int(i)
    if not isinstance(i, int):
        raise Unsupported(f'index of type {type(i).__name__}', node)
    if i < -n or i >= n:
        raise Fault(f'index {i} is out of range for an axis of length {n}', node)
    return i % n if n else 0


def _region(arr, comps, node):
    """(flat offsets, region shape) addressed by normalised index components."""
    strides = []
    st = 1
    for s in reversed(arr.shape):
        strides.append(st)
        st *= s
    strides.reverse()
    adv = [k for k, c in enumerate(comps) if isinstance(c, Arr)]
    if adv:
        if len(adv) == 1 and comps[adv[0]].data and all(isinstance(e, bool) for e in comps[adv[0]].data):
            m = comps[adv[0]]
            if adv[0] != 0 or m.shape != arr.shape[:m.ndim] or any(not isinstance(c, slice) or c != slice(None)
                                                                   for c in comps[1:]):
                raise Unsupported('boolean mask index of this form', node)
            inner = _size(arr.shape[m.ndim:])
            offs = []
            cnt = 0
            for k, e in enumerate(m.data):
                if isunk(e):
                    raise Unsupported('mask with unknown entries', node)
                if e:
                    cnt += 1
                    offs.extend(range(k * inner, (k + 1) * inner))
            return offs, (cnt,) + arr.shape[m.ndim:]
        if adv != list(range(len(adv))):
            raise Unsupported('integer-array index that is not a prefix of the axes', node)
        lens = {c.size for c in (comps[k] for k in adv) if c.ndim == 1}
        if any(comps[k].ndim != 1 for k in adv) or len(lens) != 1:
            raise Unsupported('integer-array indices of different shapes', node)
        L = lens.pop()
        rest = comps[len(adv):]
        rest_ranges, rest_shape = [], []
        for ax, c in enumerate(rest, start=len(adv)):
            n = arr.shape[ax]
            if isinstance(c, slice):
                r = range(*_slice_indices(c, n, node))
                rest_ranges.append(r)
                rest_shape.append(len(r))
            else:
                rest_ranges.append([_axis_int(c, n, node)])
        offs = []
        for l in range(L):
            base = 0
            for k in adv:
                e = comps[k].data[l]
                if isinstance(e, bool):
                    raise Unsupported('mixed boolean index', node)
                i = _axis_int(e, arr.shape[k], node)
                base += i * strides[k]
            for tail in itertools.product(*rest_ranges):
                off = base
                for ax, i in enumerate(tail, start=len(adv)):
                    off += i * strides[ax]
                offs.append(off)
        return offs, (L,) + tuple(rest_shape)
    ranges, shape = [], []
    for ax, c in enumerate(comps):
        n = arr.shape[ax]
        if isinstance(c, slice):
            r = range(*_slice_indices(c, n, node))
            ranges.append(r)
            shape.append(len(r))
        else:
            ranges.append([_axis_int(c, n, node)])
    offs = []
    for tup in itertools.product(*ranges):
        off = 0
        for i, s in zip(tup, strides):
            off += i * s
        offs.append(off)
    return offs, tuple(shape)


def _slice_indices(s, n, node):
    def cv(v):
        if v is None:
            return None
        if isunk(v):
            raise Unsupported('unknown slice bound', node)
        if isinstance(v, Fraction):
            if v.denominator != 1:
                raise Fault(f'non-integer slice bound {v}', node)
            return int(v)
        if isinstance(v, Arr) and v.size == 1:
            return cv(v.data[0])
        if not isinstance(v, int):
            raise Unsupported('slice bound type', node)
        return v
    return slice(cv(s.start), cv(s.stop), cv(s.step)).indices(n)


def getitem(c, idx, node=None):
    if isunk(c):
        return UNK
    if isinstance(c, Arr):
        comps = _expand(c, idx, node)
        if comps is None:
            return UNK
        offs, shape = _region(c, comps, node)
        if shape == () and not any(isinstance(k, (slice, Arr)) for k in comps):
            return c.data[offs[0]]
        basic = not any(isinstance(k, Arr) for k in comps)
        return Arr([c.data[o] for o in offs], shape, view=basic)
    if isinstance(c, (list, tuple, range, str)):
        if isinstance(idx, Fraction) and idx.denominator == 1:
            idx = int(idx)
        if isinstance(idx, slice):
            return c[slice(*[None if v is None else int(v) for v in (idx.start, idx.stop, idx.step)])]
        if isunk(idx):
            raise Unsupported('unknown index into a sequence', node)
        if isinstance(idx, Arr) and idx.size == 1:
            idx = idx.data[0]
        if not isinstance(idx, int):
            raise Unsupported(f'sequence index of type {type(idx).__name__}', node)
        if idx < -len(c) or idx >= len(c):
            raise Fault(f'index {idx} is out of range for a sequence of length {len(c)}', node)
        return c[idx]
    if isinstance(c, dict):
        k = _key(idx, node)
        if k not in c:
            raise Fault(f'key {k!r} not present', node)
        return c[k]
    if isinstance(c, (set, frozenset)):
        raise Fault("'set' object is not subscriptable (TypeError)", node)
    if is_num(c):
        return UNK      # numpy scalar indexing (x[..., None]) -- derivative bookkeeping only
    return UNK


def _key(k, node):
    if isinstance(k, Arr):
        if k.size == 1:
            return _key(k.data[0], node)
        raise Unsupported('array used as a dictionary key', node)
    if isinstance(k, Fraction) and k.denominator == 1:
        return int(k)
    if isinstance(k, list):
        raise Fault('unhashable key (list)', node)
    if isinstance(k, tuple):
        return tuple(_key(e, node) for e in k)
    if isunk(k):
        raise Unsupported('unknown dictionary key', node)
    return k


def setitem(c, idx, val, node=None):
    if isunk(c):
        return
    if isinstance(c, Arr):
        if c.view:
            raise Unsupported('assignment through a slice view', node)
        comps = _expand(c, idx, node)
        if comps is None:
            raise Unsupported('assignment with np.newaxis', node)
        offs, shape = _region(c, comps, node)
        if isunk(val):
            for o in offs:
                c.data[o] = UNK
            return
        if isinstance(val, (list, tuple)):
            val = from_nested(val)
        flat = broadcast_flat(val, shape)
        if len(flat) != len(offs):
            raise Fault(f'cannot assign {len(flat)} values to a region of shape {shape}', node)
        for o, v in zip(offs, flat):
            c.data[o] = v
        return
    if isinstance(c, list):
        if isinstance(idx, Fraction) and idx.denominator == 1:
            idx = int(idx)
        if not isinstance(idx, int):
            raise Unsupported('list assignment index', node)
        if idx < -len(c) or idx >= len(c):
            raise Fault(f'list assignment index {idx} out of range', node)
        c[idx] = val
        return
    if isinstance(c, dict):
        c[_key(idx, node)] = val
        return
    if isinstance(c, (set, frozenset, tuple)):
        raise Fault(f"'{type(c).__name__}' object does not support item assignment (TypeError)", node)
    raise Unsupported(f'item assignment on {type(c).__name__}', node)


# ------------------------------------------------------------------------------------------ numpy
def einsum(spec, ops, node=None):
    """np.einsum with an explicit '->' over exact numbers (pairwise contraction, smallest result first)."""
    if not isinstance(spec, str) or '->' not in spec or '.' in spec:
        raise Unsupported('einsum specification', node)
    ins, out = spec.replace(' ', '').split('->')
    ins = ins.split(',')
    if len(ins) != len(ops):
        raise Fault('einsum: number of operands does not match the subscripts', node)
    if any(isunk(o) for o in ops):
        return UNK
    arrs = [as_arr(o) for o in ops]
    dims = {}
    for sub, a in zip(ins, arrs):
        if len(sub) != a.ndim:
            raise Fault(f"einsum: operand of shape {a.shape} does not match subscripts '{sub}'", node)
        for ch, n in zip(sub, a.shape):
            if dims.setdefault(ch, n) != n:
                raise Fault(f"einsum: size of label '{ch}' is inconsistent ({dims[ch]} vs {n})", node)
    for ch in out:
        if ch not in dims:
            raise Fault(f"einsum: output label '{ch}' not in the inputs", node)
    if len(set(out)) != len(out):
        raise Unsupported('einsum: repeated output label', node)
    terms = []      # (labels tuple (unique), {index tuple: value}) -- zero entries dropped
    for sub, a in zip(ins, arrs):
        uniq = tuple(dict.fromkeys(sub))
        tab = {}
        for k, tup in enumerate(itertools.product(*[range(n) for n in a.shape])):
            v = a.data[k]
            if not isunk(v) and v == 0:
                continue
            asg = {}
            ok = True
            for ch, i in zip(sub, tup):
                if asg.setdefault(ch, i) != i:
                    ok = False
                    break
            if ok:
                key = tuple(asg[ch] for ch in uniq)
                tab[key] = _add(tab.get(key), v)
        terms.append((uniq, tab))

    def needed_elsewhere(skip):
        s = set(out)
        for k, (labs, _) in enumerate(terms):
            if k not in skip:
                s.update(labs)
        return s

    def project(labs, tab, keep):
        keep_t = tuple(ch for ch in labs if ch in keep)
        if keep_t == labs:
            return labs, tab
        pos = [labs.index(ch) for ch in keep_t]
        res = {}
        for tup, v in tab.items():
            key = tuple(tup[p] for p in pos)
            res[key] = _add(res.get(key), v)
        return keep_t, res

    while len(terms) > 1:
        best = None
        for i in range(len(terms)):
            for j in range(i + 1, len(terms)):
                keep = needed_elsewhere((i, j))
                labs = [ch for ch in dict.fromkeys(terms[i][0] + terms[j][0]) if ch in keep]
                cost = _size([dims[ch] for ch in labs])
                if best is None or cost < best[0]:
                    best = (cost, i, j)
        _, i, j = best
        keep = needed_elsewhere((i, j))
        (la, ta), (lb, tb) = terms[i], terms[j]
        shared = [ch for ch in la if ch in lb]
        pa = [la.index(ch) for ch in shared]
        pb = [lb.index(ch) for ch in shared]
        labs = tuple(dict.fromkeys(la + lb))
        keep_t = tuple(ch for ch in labs if ch in keep)
        src = [(0, la.index(ch)) if ch in la else (1, lb.index(ch)) for ch in keep_t]
        index_b = {}
        for tup, v in tb.items():
            index_b.setdefault(tuple(tup[p] for p in pb), []).append((tup, v))
        res = {}
        for tup, v in ta.items():
            for tup2, w in index_b.get(tuple(tup[p] for p in pa), ()):
                both = (tup, tup2)
                key = tuple(both[s][p] for s, p in src)
                res[key] = _add(res.get(key), _mul(v, w))
        terms = [t for k, t in enumerate(terms) if k not in (i, j)] + [(keep_t, res)]
    labs, tab = project(terms[0][0], terms[0][1], set(out))
    pos = [labs.index(ch) for ch in out]
    shape = tuple(dims[ch] for ch in out)
    final = {}
    for tup, v in tab.items():
        final[tuple(tup[p] for p in pos)] = v
    data = [final.get(tup, 0) for tup in itertools.product(*[range(n) for n in shape])]
    if shape == ():
        return data[0]
    return Arr(data, shape)


def _add(a, b):
    if a is None:
        return b
    if isunk(a) or isunk(b):
        return _unk_of(a, b)
    return a + b


def _mul(a, b):
    if isunk(a) or isunk(b):
        if (not isunk(a) and a == 0) or (not isunk(b) and b == 0):
            return _unk_of(a, b)
        return _unk_of(a, b)
    return a * b


def searchsorted(a, v, side='left', node=None):
    a = as_arr(a)
    if a.ndim != 1 or any(isunk(e) for e in a.data):
        raise Unsupported('searchsorted on this array', node)
    if side not in ('left', 'right'):
        raise Unsupported('searchsorted side', node)

    def one(x):
        if isunk(x):
            return UNK
        k = 0
        for e in a.data:
            if (e < x) if side == 'left' else (e <= x):
                k += 1
            else:
                break
        return k
    if isinstance(v, Arr):
        return Arr([one(x) for x in v.data], v.shape)
    return one(v)


# ------------------------------------------------------------------------------------ object model
class Obj:
    def __init__(self, cls_key, attrs=None):
        self.cls_key = cls_key
        self.attrs = dict(attrs or {})
        self.stubs = {}

    def __repr__(self):
        return f'<Obj {self.cls_key[1]}>'


class ClassVal:
    def __init__(self, rel, qn):
        self.rel, self.qn = rel, qn

    def __repr__(self):
        return f'<class {self.qn}>'


class FuncVal:
    def __init__(self, func):
        self.func = func


class BoundMethod:
    def __init__(self, obj, func, owner):
        self.obj, self.func, self.owner = obj, func, owner


class _Super:
    def __init__(self, obj, after):
        self.obj, self.after = obj, after


class _ModuleScope:
    """Stands in for a Func when a module-level expression is evaluated."""

    def __init__(self, module):
        self.module = module
        self.qualname = '<module>'
        self.rel = module.rel


class _Ret(Exception):
    def __init__(self, v):
        self.v = v


class _Brk(Exception):
    pass


class _Cont(Exception):
    pass


NP = object()
LOOP_CAP = 2000


class Machine:
    """Interpreter for the kernel fragment.  One instance per analysed (possibly mutated) Repo."""

    def __init__(self, repo):
        self.repo = repo
        self.steps = 0
        self.stack = []     # (Func, owner class key)
        self._lk = {}
        self._globals = {}
        self.scope = 'openmdao.components'      # only code of this package is interpreted

    # ------------------------------------------------------------------ objects
    def instantiate(self, rel, qn, args=(), kwargs=None, node=None):
        self.repo.cls(rel, qn)
        obj = Obj((rel, qn))
        init = self._lookup(obj.cls_key, '__init__')
        if init is not None:
            self.call_func(init[0], [obj] + list(args), dict(kwargs or {}), owner=init[1], node=node)
        return obj

    def _lookup(self, cls_key, name, after=None):
        ck = (cls_key, name, after)
        try:
            return self._lk[ck]
        except KeyError:
            r = self._lk[ck] = self._lookup0(cls_key, name, after)
            return r

    def _lookup0(self, cls_key, name, after=None):
        mro = self.repo.mro(*cls_key)
        if after is not None:
            if after not in mro:
                return None
            mro = mro[mro.index(after) + 1:]
        for r, q in mro:
            f = self.repo.module(r).funcs.get(f'{q}.{name}')
            if f is not None:
                return f, (r, q)
        return None

    def call_method(self, obj, name, *args, **kwargs):
        m = self.getattr(obj, name, None)
        return self.call(m, list(args), kwargs, None)

    # ------------------------------------------------------------------ calls
    def call(self, f, args, kwargs, node):
        if isunk(f):
            return UNK
        if isinstance(f, BoundMethod):
            return self.call_func(f.func, [f.obj] + args, kwargs, owner=f.owner, node=node)
        if isinstance(f, FuncVal):
            return self.call_func(f.func, args, kwargs, owner=None, node=node)
        if isinstance(f, ClassVal):
            return self.instantiate(f.rel, f.qn, args, kwargs, node)
        if callable(f):
            return f(*args, **kwargs)
        raise Unsupported(f'call of {type(f).__name__}', node)

    def call_func(self, func, args, kwargs, owner, node=None):
        if len(self.stack) > 40:
            raise Unsupported('call depth', node)
        a = func.node.args
        if a.posonlyargs or a.kwonlyargs:
            raise Unsupported('signature kind', func.node)
        env = {}
        params = [p.arg for p in a.args]
        if len(args) > len(params) and not a.vararg:
            raise Fault(f'{func.qualname}() takes {len(params)} positional arguments but {len(args)} were given',
                        node)
        for p, v in zip(params, args):
            env[p] = v
        if a.vararg:
            env[a.vararg.arg] = tuple(args[len(params):])
        extra = {}
        for k, v in kwargs.items():
            if k in params:
                if k in env:
                    raise Fault(f'{func.qualname}() got multiple values for argument {k!r}', node)
                env[k] = v
            else:
                extra[k] = v
        if extra and not a.kwarg:
            raise Fault(f'{func.qualname}() got an unexpected keyword argument {sorted(extra)[0]!r}', node)
        if a.kwarg:
            env[a.kwarg.arg] = extra
        ndef = len(a.defaults)
        for p, d in zip(params[len(params) - ndef:], a.defaults):
            if p not in env:
                env[p] = self.eval(d, {}, func)
        for p in params:
            if p not in env:
                raise Fault(f'{func.qualname}() missing required argument {p!r}', node)
        self.stack.append((func, owner))
        try:
            self.block(astx.strip_doc(func.node.body), env, func)
        except _Ret as r:
            return r.v
        except (Fault, Raised, Unsupported) as ex:
            if getattr(ex, 'func', None) is None:
                ex.func = func          # innermost interpreted function
            raise
        finally:
            self.stack.pop()
        return None

    # ------------------------------------------------------------------ statements
    def block(self, stmts, env, fn):
        for st in stmts:
            self.stmt(st, env, fn)

    def stmt(self, st, env, fn):
        if isinstance(st, ast.Assign):
            v = self.eval(st.value, env, fn)
            for t in st.targets:
                self.assign(t, v, env, fn)
        elif isinstance(st, ast.AugAssign):
            self.augassign(st, env, fn)
        elif isinstance(st, ast.AnnAssign):
            if st.value is not None:
                self.assign(st.target, self.eval(st.value, env, fn), env, fn)
        elif isinstance(st, ast.Expr):
            self.eval(st.value, env, fn)
        elif isinstance(st, ast.If):
            if truth(self.eval(st.test, env, fn), st):
                self.block(st.body, env, fn)
            else:
                self.block(st.orelse, env, fn)
        elif isinstance(st, ast.While):
            n = 0
            while truth(self.eval(st.test, env, fn), st):
                n += 1
                if n > LOOP_CAP:
                    raise Fault(f'loop does not terminate ({LOOP_CAP} iterations on a table of a few points)', st)
                try:
                    self.block(st.body, env, fn)
                except _Brk:
                    break
                except _Cont:
                    continue
            else:
                self.block(st.orelse, env, fn)
        elif isinstance(st, ast.For):
            it = self.iterate(self.eval(st.iter, env, fn), st)
            broke = False
            for v in it:
                self.assign(st.target, v, env, fn)
                try:
                    self.block(st.body, env, fn)
                except _Brk:
                    broke = True
                    break
                except _Cont:
                    continue
            if not broke:
                self.block(st.orelse, env, fn)
        elif isinstance(st, ast.Return):
            raise _Ret(None if st.value is None else self.eval(st.value, env, fn))
        elif isinstance(st, ast.Pass):
            pass
        elif isinstance(st, ast.Break):
            raise _Brk()
        elif isinstance(st, ast.Continue):
            raise _Cont()
        elif isinstance(st, ast.Raise):
            name = None
            e = st.exc
            if e is None:
                cur = env.get('__exc__')
                if cur is None:
                    raise Unsupported('bare raise outside a handler', st)
                raise cur
            if isinstance(e, ast.Call):
                e = e.func
            if isinstance(e, ast.Name):
                name = e.id
            elif isinstance(e, ast.Attribute):
                name = e.attr
            value, bases = None, [name]
            if isinstance(st.exc, ast.Call) and isinstance(e, ast.Name):
                f = env[e.id] if e.id in env else self.global_name(e.id, fn, e)
                if isinstance(f, ClassVal):
                    try:
                        value = self.eval(st.exc, env, fn)  # run the exception's __init__ (attributes idx, value ...)
                    except Unsupported:
                        value = None                        # the exception type is what matters
                    for r, q in self.repo.mro(f.rel, f.qn):
                        bases.append(q)
                        for b in self.repo.module(r).classes[q].bases:
                            if isinstance(b, ast.Name):
                                bases.append(b.id)
            raise Raised(name or 'exception', st, value, bases)
        elif isinstance(st, ast.Try):
            if st.finalbody or st.orelse:
                raise Unsupported('try with else/finally', st)
            try:
                self.block(st.body, env, fn)
            except Raised as ex:
                for h in st.handlers:
                    t = h.type
                    names = ['*'] if t is None else [astx.path(x) or '?' for x in
                                                     (t.elts if isinstance(t, ast.Tuple) else [t])]
                    names = [n_.split('.')[-1] for n_ in names]
                    if '*' in names or 'Exception' in names or 'BaseException' in names or \
                            any(n_ in ex.bases for n_ in names):
                        if h.name:
                            env[h.name] = ex.value if ex.value is not None else UNK
                        saved = env.get('__exc__')
                        env['__exc__'] = ex
                        try:
                            self.block(h.body, env, fn)
                        finally:
                            env['__exc__'] = saved
                        break
                else:
                    raise
        elif isinstance(st, (ast.Import, ast.ImportFrom, ast.Global, ast.Nonlocal)):
            pass
        elif isinstance(st, ast.Assert):
            pass
        else:
            raise Unsupported(f'statement {type(st).__name__}', st)

    def iterate(self, v, node):
        if isunk(v):
            raise Unsupported('iteration over an unknown quantity', node)
        if isinstance(v, Arr):
            if v.ndim == 0:
                raise Fault('iteration over a 0-d array', node)
            if v.ndim == 1:
                return list(v.data)
            step = _size(v.shape[1:])
            return [Arr(v.data[i * step:(i + 1) * step], v.shape[1:], view=True) for i in range(v.shape[0])]
        if isinstance(v, dict):
            return list(v.keys())
        if isinstance(v, (list, tuple, range, set, frozenset, str)):
            return list(v)
        if hasattr(v, '__iter__') and not isinstance(v, (Obj,)):
            return list(v)
        raise Unsupported(f'iteration over {type(v).__name__}', node)

    def assign(self, t, v, env, fn):
        if isinstance(t, ast.Name):
            env[t.id] = v
        elif isinstance(t, (ast.Tuple, ast.List)):
            if any(isinstance(e, ast.Starred) for e in t.elts):
                raise Unsupported('starred assignment', t)
            if isunk(v):
                for e in t.elts:
                    self.assign(e, UNK, env, fn)
                return
            vals = self.iterate(v, t)
            if len(vals) != len(t.elts):
                raise Fault(f'cannot unpack {len(vals)} values into {len(t.elts)} targets', t)
            for e, x in zip(t.elts, vals):
                self.assign(e, x, env, fn)
        elif isinstance(t, ast.Attribute):
            o = self.eval(t.value, env, fn)
            if isunk(o):
                return
            if isinstance(o, Obj):
                o.attrs[t.attr] = v
            else:
                raise Unsupported(f'attribute assignment on {type(o).__name__}', t)
        elif isinstance(t, ast.Subscript):
            c = self.eval(t.value, env, fn)
            idx = self.index(t.slice, env, fn, c)
            setitem(c, idx, v, t)
        else:
            raise Unsupported(f'assignment target {type(t).__name__}', t)

    def augassign(self, st, env, fn):
        t = st.target
        rhs = self.eval(st.value, env, fn)
        op = type(st.op)
        if isinstance(t, ast.Name):
            if t.id not in env:
                raise Fault(f'local variable {t.id!r} referenced before assignment', st)
            cur = env[t.id]
            if isinstance(cur, Arr):
                if cur.view:
                    raise Unsupported('in-place update of a slice view', st)
                res = binop(op, cur, rhs, st)
                if not isinstance(res, Arr) or res.shape != cur.shape:
                    raise Fault('in-place operation changes the shape', st)
                cur.data[:] = res.data          # numpy in-place semantics: aliases see the update
            elif isinstance(cur, list) and op is ast.Add:
                cur.extend(self.iterate(rhs, st))
            else:
                env[t.id] = binop(op, cur, rhs, st)
        elif isinstance(t, ast.Subscript):
            c = self.eval(t.value, env, fn)
            idx = self.index(t.slice, env, fn, c)
            cur = getitem(c, idx, t)
            setitem(c, idx, binop(op, cur, rhs, st), t)
        elif isinstance(t, ast.Attribute):
            o = self.eval(t.value, env, fn)
            if isunk(o):
                return
            cur = self.getattr(o, t.attr, t)
            self.assign(t, binop(op, cur, rhs, st), env, fn)
        else:
            raise Unsupported('augmented assignment target', st)

    # ------------------------------------------------------------------ expressions
    @staticmethod
    def _syn_neg(e):
        if isinstance(e, ast.UnaryOp) and isinstance(e.op, ast.USub):
            return True
        return isinstance(e, ast.Constant) and isinstance(e.value, (int, float)) and e.value < 0

    def index(self, sl, env, fn, container):
        """Evaluate a subscript; computed negative positions into sequences/arrays are faults."""
        seq = isinstance(container, (Arr, list, tuple))

        def one(e):
            if isinstance(e, ast.Slice):
                parts = []
                for b in (e.lower, e.upper, e.step):
                    if b is None:
                        parts.append(None)
                        continue
                    v = self.eval(b, env, fn)
                    if seq and b is not e.step and is_num(v) and v < 0 and not self._syn_neg(b):
                        raise Fault(f'slice bound `{astx.src(b)}` evaluates to {v}: the stencil leaves the '
                                    'table at the low end (a negative bound silently counts from the far end)', b)
                    parts.append(v)
                return slice(*parts)
            v = self.eval(e, env, fn)
            if seq and not self._syn_neg(e):
                if is_num(v) and v < 0:
                    raise Fault(f'index `{astx.src(e)}` evaluates to {v}: a negative index silently wraps '
                                'around to the far end of the table', e)
                if isinstance(v, Arr) and any(is_num(x) and x < 0 for x in v.data):
                    raise Fault(f'index array `{astx.src(e)}` contains a negative entry: it silently wraps '
                                'around to the far end of the table', e)
            return v
        if isinstance(sl, ast.Tuple):
            return tuple(one(e) for e in sl.elts)
        return one(sl)

    def eval(self, e, env, fn):
        t = e.__class__
        if t is ast.Name:
            try:
                return env[e.id]
            except KeyError:
                return self.global_name(e.id, fn, e)
        if t is ast.Constant:
            try:
                return e._c15
            except AttributeError:
                v = Ellipsis if e.value is Ellipsis else num(e.value)
                e._c15 = v
                return v
        if t is ast.BinOp:
            return binop(e.op.__class__, self.eval(e.left, env, fn), self.eval(e.right, env, fn), e)
        if t is ast.Subscript:
            c = self.eval(e.value, env, fn)
            return getitem(c, self.index(e.slice, env, fn, c), e)
        if t is ast.Attribute:
            return self.getattr(self.eval(e.value, env, fn), e.attr, e)
        if t is ast.Call:
            return self.eval_call(e, env, fn)
        if isinstance(e, ast.UnaryOp):
            v = self.eval(e.operand, env, fn)
            if isinstance(e.op, ast.Not):
                if isunk(v):
                    return UNK
                return not truth(v, e)
            if isinstance(e.op, ast.USub):
                return binop(ast.Sub, 0, v, e)
            if isinstance(e.op, ast.UAdd):
                return v
            if isinstance(e.op, ast.Invert):
                if isunk(v):
                    return UNK
                if isinstance(v, Arr) and all(isinstance(x, bool) or isunk(x) for x in v.data):
                    return Arr([UNK if isunk(x) else (not x) for x in v.data], v.shape)
                if isinstance(v, bool):
                    return not v
                if isinstance(v, int):
                    return ~v
            raise Unsupported('unary operator', e)
        if isinstance(e, ast.BoolOp):
            last = None
            for sub in e.values:
                last = self.eval(sub, env, fn)
                if isunk(last):
                    raise Unsupported(f'unknown operand in `{astx.src(e)}`', e)
                t = truth(last, e)
                if isinstance(e.op, ast.And) and not t:
                    return last
                if isinstance(e.op, ast.Or) and t:
                    return last
            return last
        if isinstance(e, ast.Compare):
            left = self.eval(e.left, env, fn)
            res = True
            for op, c in zip(e.ops, e.comparators):
                right = self.eval(c, env, fn)
                res = compare(type(op), left, right, e)
                if len(e.ops) > 1:
                    if isunk(res):
                        return UNK
                    if not truth(res, e):
                        return False
                left = right
            return res
        if isinstance(e, ast.IfExp):
            return self.eval(e.body if truth(self.eval(e.test, env, fn), e) else e.orelse, env, fn)
        if isinstance(e, ast.Tuple):
            return tuple(self.eval(x, env, fn) for x in e.elts)
        if isinstance(e, ast.List):
            return [self.eval(x, env, fn) for x in e.elts]
        if isinstance(e, ast.Set):
            return {_key(self.eval(x, env, fn), e) for x in e.elts}
        if isinstance(e, ast.Dict):
            if any(k is None for k in e.keys):
                raise Unsupported('dict unpacking', e)
            return {_key(self.eval(k, env, fn), e): self.eval(v, env, fn) for k, v in zip(e.keys, e.values)}
        if isinstance(e, (ast.ListComp, ast.GeneratorExp, ast.SetComp)):
            out = []
            self.comp(e.generators, 0, env, fn, lambda en: out.append(self.eval(e.elt, en, fn)))
            if isinstance(e, ast.SetComp):
                return {_key(x, e) for x in out}
            return out
        if isinstance(e, ast.Subscript):
            c = self.eval(e.value, env, fn)
            return getitem(c, self.index(e.slice, env, fn, c), e)
        if isinstance(e, ast.Slice):
            return slice(*[None if b is None else self.eval(b, env, fn) for b in (e.lower, e.upper, e.step)])
        if isinstance(e, ast.Attribute):
            return self.getattr(self.eval(e.value, env, fn), e.attr, e)
        if isinstance(e, ast.Call):
            return self.eval_call(e, env, fn)
        if isinstance(e, ast.JoinedStr):
            return 'STR'
        if isinstance(e, ast.Starred):
            raise Unsupported('starred expression', e)
        if isinstance(e, ast.Lambda):
            return UNK
        raise Unsupported(f'expression {type(e).__name__}', e)

    def comp(self, gens, k, env, fn, emit):
        if k == len(gens):
            emit(env)
            return
        g = gens[k]
        for v in self.iterate(self.eval(g.iter, env, fn), g.iter):
            en = dict(env)
            self.assign(g.target, v, en, fn)
            if all(truth(self.eval(c, en, fn), c) for c in g.ifs):
                self.comp(gens, k + 1, en, fn, emit)

    def eval_call(self, e, env, fn):
        # super() needs the lexical class
        if isinstance(e.func, ast.Name) and e.func.id == 'super' and not e.args and 'super' not in env:
            owner = self.stack[-1][1] if self.stack else None
            if owner is None or 'self' not in env:
                raise Unsupported('super() outside a method', e)
            return _Super(env['self'], owner)
        f = self.eval(e.func, env, fn)
        args = []
        for a in e.args:
            if isinstance(a, ast.Starred):
                args.extend(self.iterate(self.eval(a.value, env, fn), a))
            else:
                args.append(self.eval(a, env, fn))
        kwargs = {}
        for k in e.keywords:
            if k.arg is None:
                d = self.eval(k.value, env, fn)
                if isunk(d):
                    continue
                if not isinstance(d, dict):
                    raise Unsupported('** of a non-dict', e)
                kwargs.update(d)
            else:
                kwargs[k.arg] = self.eval(k.value, env, fn)
        return self.call(f, args, kwargs, e)

    # ------------------------------------------------------------------ names / attributes
    def global_name(self, name, fn, node):
        mod = fn.module if fn is not None else None
        if mod is not None:
            if name in mod.classes:
                return ClassVal(mod.rel, name)
            if name in mod.funcs:
                return FuncVal(mod.funcs[name])
            imp = mod.imports.get(name)
            if imp is not None:
                if imp[0] == 'numpy' and imp[1] is None:
                    return NP
                if imp[0].startswith(self.scope) and imp[1]:     # other packages stay opaque (UNK)
                    rel = imp[0].replace('.', '/') + '.py'
                    if self.repo.exists(rel):
                        m2 = self.repo.module(rel)
                        if imp[1] in m2.classes:
                            return ClassVal(rel, imp[1])
                        if imp[1] in m2.funcs:
                            return FuncVal(m2.funcs[imp[1]])
                return UNK
        if name in _BUILTINS:
            return _BUILTINS[name]
        if mod is not None:
            ck = (mod.rel, name)
            if ck in self._globals:
                return self._globals[ck]
            val = UNK
            defs = [st for st in mod.tree.body if isinstance(st, ast.Assign) and
                    any(isinstance(t, ast.Name) and t.id == name for t in st.targets)]
            if len(defs) == 1 and isinstance(defs[0].value, (ast.Dict, ast.List, ast.Tuple, ast.Constant)):
                self._globals[ck] = UNK          # guards against cyclic definitions
                try:
                    val = self.eval(defs[0].value, {}, _ModuleScope(mod))
                except Unsupported:
                    val = UNK
            self._globals[ck] = val
            return val
        return UNK

    def getattr(self, o, attr, node):
        if isunk(o):
            return UNK
        if isinstance(o, Obj):
            if attr in o.stubs:
                return o.stubs[attr]
            if attr in o.attrs:
                return o.attrs[attr]
            hit = self._lookup(o.cls_key, attr)
            if hit is not None:
                return BoundMethod(o, hit[0], hit[1])
            raise Fault(f"'{o.cls_key[1]}' object has no attribute {attr!r}", node)
        if isinstance(o, _Super):
            hit = self._lookup(o.obj.cls_key, attr, after=o.after)
            if hit is None:
                if attr == '__init__':
                    return lambda *a, **k: None
                raise Fault(f'super() has no attribute {attr!r}', node)
            return BoundMethod(o.obj, hit[0], hit[1])
        if o is NP:
            return _np_attr(attr)
        if isinstance(o, Arr):
            return _arr_attr(o, attr, node)
        if is_num(o) or isinstance(o, bool):
            if attr == 'item':
                return lambda: o
            if attr == 'ravel':
                return lambda: Arr([o], (1,))
            if attr == 'dtype':
                return 'float'
            if attr == 'real':
                return o
            if attr == 'shape':
                return ()
            return UNK
        if isinstance(o, list):
            return _list_attr(self, o, attr, node)
        if isinstance(o, dict):
            return _dict_attr(o, attr, node)
        if isinstance(o, (set, frozenset)):
            return _set_attr(self, o, attr, node)
        if isinstance(o, tuple):
            if attr == 'index':
                return lambda v: o.index(v)
            if attr == 'count':
                return lambda v: o.count(v)
            return UNK
        if isinstance(o, str):
            if attr in ('startswith', 'endswith'):
                return getattr(o, attr) if o != 'STR' else (lambda *a: UNK)
            return lambda *a, **k: 'STR'
        if isinstance(o, ClassVal):
            if attr == '__name__':
                return o.qn
            return UNK
        return UNK


# --------------------------------------------------------------------------------- library models
def _shape_arg(s):
    if isinstance(s, (list, tuple)):
        out = []
        for x in s:
            if isinstance(x, Fraction) and x.denominator == 1:
                x = int(x)
            if not isinstance(x, int):
                raise Unsupported('array shape is not integral')
            out.append(x)
        return tuple(out)
    if isinstance(s, Fraction) and s.denominator == 1:
        s = int(s)
    if isinstance(s, int):
        return (s,)
    if isinstance(s, Arr):
        return _shape_arg(list(s.data))
    raise Unsupported('array shape')


def _np_attr(attr):
    def filled(v):
        def mk(shape, dtype=None, **kw):
            sh = _shape_arg(shape)
            return Arr([v] * _size(sh), sh)
        return mk

    def array(obj, dtype=None, **kw):
        if isunk(obj):
            return UNK
        return from_nested(obj)

    def atleast_1d(v):
        if isunk(v):
            return UNK
        a = as_arr(v)
        return a if a.ndim >= 1 else Arr(list(a.data), (1,))

    def atleast_2d(v):
        if isunk(v):
            return UNK
        a = as_arr(v)
        if a.ndim >= 2:
            return a
        return Arr(list(a.data), (1, a.size))

    def np_abs(v):
        if isunk(v):
            return UNK
        if isinstance(v, Arr):
            return Arr([UNK if isunk(x) else abs(x) for x in v.data], v.shape)
        return abs(v)

    def np_any(v, **kw):
        if isunk(v):
            return UNK
        a = as_arr(v)
        if any(not isunk(x) and bool(x) for x in a.data):
            return True
        if any(isunk(x) for x in a.data):
            return UNK
        return False

    def np_all(v, **kw):
        if isunk(v):
            return UNK
        a = as_arr(v)
        if any(not isunk(x) and not bool(x) for x in a.data):
            return False
        if any(isunk(x) for x in a.data):
            return UNK
        return True

    def isnan(v):
        if isunk(v):
            return UNK
        if isinstance(v, Arr):
            return Arr([UNK if isunk(x) else False for x in v.data], v.shape)
        return False

    def where(cond, *rest):
        if rest:
            if len(rest) != 2:
                raise Unsupported('np.where arity')
            c = as_arr(cond)
            sh = c.shape
            for r in rest:
                if isinstance(r, Arr):
                    sh = _bshape(sh, r.shape)
            fc, fa, fb = broadcast_flat(c, sh), broadcast_flat(rest[0], sh), broadcast_flat(rest[1], sh)
            out = []
            for k, a, b in zip(fc, fa, fb):
                out.append(UNK if isunk(k) else (a if k else b))
            return Arr(out, sh) if sh != () else out[0]
        if isunk(cond):
            return UNK
        c = as_arr(cond)
        if c.ndim == 0:
            c = Arr(list(c.data), (1,))
        if any(isunk(x) for x in c.data):
            raise Unsupported('np.where on a condition with unknown entries')
        hits = [tup for tup, x in zip(itertools.product(*[range(n) for n in c.shape]), c.data) if x]
        return tuple(Arr([h[ax] for h in hits], (len(hits),)) for ax in range(c.ndim))

    def diff(v):
        a = as_arr(v)
        if a.ndim == 0:
            raise Fault('np.diff of a 0-d array')
        n = a.shape[-1]
        rows = a.size // n if n else 0
        out = []
        for r in range(rows):
            row = a.data[r * n:(r + 1) * n]
            out.extend(binop(ast.Sub, y, x) for x, y in zip(row, row[1:]))
        return Arr(out, a.shape[:-1] + (max(n - 1, 0),))

    def unique(v):
        a = as_arr(v)
        if any(isunk(x) for x in a.data):
            raise Unsupported('np.unique of unknown entries')
        vals = sorted(set(a.data))
        return Arr(vals, (len(vals),))

    def arange(*args):
        r = _b_range(*args)
        return Arr(list(r), (len(r),))

    def transpose(v):
        return _arr_attr(as_arr(v), 'T', None)

    def np_max(*vs):
        def f(v, w):
            sh = _bshape(as_arr(v).shape, as_arr(w).shape)
            out = [UNK if (isunk(x) or isunk(y)) else max(x, y)
                   for x, y in zip(broadcast_flat(v, sh), broadcast_flat(w, sh))]
            return Arr(out, sh) if sh != () else out[0]
        return f(*vs)

    def np_min(*vs):
        def f(v, w):
            sh = _bshape(as_arr(v).shape, as_arr(w).shape)
            out = [UNK if (isunk(x) or isunk(y)) else min(x, y)
                   for x, y in zip(broadcast_flat(v, sh), broadcast_flat(w, sh))]
            return Arr(out, sh) if sh != () else out[0]
        return f(*vs)

    table = {
        'array': array, 'asarray': array, 'empty': filled(JUNK), 'zeros': filled(0), 'ones': filled(1),
        'einsum': lambda spec, *ops, **kw: einsum(spec, ops),
        'dot': lambda a, b: matmul(a, b), 'matmul': lambda a, b: matmul(a, b),
        'searchsorted': lambda a, v, side='left', **kw: searchsorted(a, v, side),
        'atleast_1d': atleast_1d, 'atleast_2d': atleast_2d,
        'abs': np_abs, 'absolute': np_abs, 'fabs': np_abs,
        'any': np_any, 'all': np_all, 'isnan': isnan, 'where': where, 'diff': diff, 'unique': unique,
        'arange': arange,
        'transpose': transpose, 'maximum': np_max, 'minimum': np_min,
        'seterr': lambda *a, **k: None,
        'min': lambda v, **k: _reduce_minmax(v, min, k), 'amin': lambda v, **k: _reduce_minmax(v, min, k),
        'max': lambda v, **k: _reduce_minmax(v, max, k), 'amax': lambda v, **k: _reduce_minmax(v, max, k),
        'issubdtype': lambda dt, kind: UNK if (isunk(dt) or isunk(kind)) else (dt == 'float' and kind in ('inexact', 'floating')),
        'inexact': 'inexact', 'floating': 'floating',
        'iscomplexobj': lambda v: UNK if isunk(v) else False,
        'iscomplex': lambda v: UNK if isunk(v) else (Arr([False] * v.size, v.shape) if isinstance(v, Arr) else False),
        'nan': UNK, 'inf': UNK, 'newaxis': None, 'pi': UNK,
        'ndarray': ('TYPE', 'ndarray'),
    }
    return table.get(attr, UNK)


def _reduce_minmax(v, fn, kw=None):
    if kw:
        raise Unsupported('min/max with axis or other keywords')
    if isunk(v):
        return UNK
    a = as_arr(v)
    if a.size == 0:
        raise Fault('min()/max() of an empty array (ValueError)')
    if any(isunk(x) for x in a.data):
        return UNK
    return fn(a.data)


def _arr_attr(a, attr, node):
    if attr == 'shape':
        return a.shape
    if attr == 'ndim':
        return a.ndim
    if attr == 'size':
        return a.size
    if attr == 'dtype':
        return 'float'
    if attr == 'T':
        if a.ndim < 2:
            return a
        if a.ndim != 2:
            raise Unsupported('.T of an array with more than two dimensions', node)
        r, c = a.shape
        return Arr([a.data[i * c + j] for j in range(c) for i in range(r)], (c, r), view=True)
    if attr == 'real':
        return a
    if attr == 'item':
        def item():
            if a.size != 1:
                raise Fault(f'item() of an array of {a.size} elements', node)
            return a.data[0]
        return item
    if attr == 'copy':
        return a.copy
    if attr in ('ravel', 'flatten'):
        return lambda: Arr(list(a.data), (a.size,))
    if attr == 'astype':
        return lambda *x, **k: a
    if attr == 'min':
        return lambda **k: _reduce_minmax(a, min, k)
    if attr == 'max':
        return lambda **k: _reduce_minmax(a, max, k)
    if attr == 'any':
        return lambda: _np_attr('any')(a)
    if attr == 'all':
        return lambda: _np_attr('all')(a)
    if attr == 'transpose':
        return lambda: _arr_attr(a, 'T', node)
    if attr == 'reshape':
        def reshape(*sh):
            if len(sh) == 1 and isinstance(sh[0], (tuple, list)):
                sh = tuple(sh[0])
            sh = list(_shape_arg(list(sh)))
            if -1 in sh:
                k = sh.index(-1)
                rest = _size([s for s in sh if s != -1])
                sh[k] = a.size // rest if rest else 0
            if _size(sh) != a.size:
                raise Fault(f'cannot reshape array of size {a.size} into shape {tuple(sh)}', node)
            return Arr(list(a.data), tuple(sh))
        return reshape
    if attr == 'tolist':
        return a.nested
    return UNK


def _list_attr(m, o, attr, node):
    if attr == 'append':
        return lambda v: o.append(v)
    if attr == 'extend':
        return lambda v: o.extend(m.iterate(v, node))
    if attr == 'pop':
        return lambda *a: o.pop(*a)
    if attr == 'index':
        return lambda v: o.index(v)
    if attr == 'copy':
        return lambda: list(o)
    if attr == 'insert':
        return lambda i, v: o.insert(i, v)
    return UNK


def _dict_attr(o, attr, node):
    if attr == 'get':
        return lambda k, d=None: o.get(_key(k, node), d)
    if attr == 'items':
        return lambda: list(o.items())
    if attr == 'keys':
        return lambda: list(o.keys())
    if attr == 'values':
        return lambda: list(o.values())
    if attr == 'update':
        def update(other=(), **kw):
            if isinstance(other, dict):
                o.update(other)
            else:
                if isunk(other):
                    raise Unsupported('dict.update with an unknown argument', node)
                items = list(other.data) if isinstance(other, Arr) else list(other)
                for k, it in enumerate(items):
                    if not isinstance(it, (tuple, list)) and not (isinstance(it, Arr) and it.ndim == 1):
                        raise Fault(f'dict.update(): cannot convert dictionary update sequence element #{k} to a '
                                    'sequence (TypeError)', node)
                    it = list(it.data) if isinstance(it, Arr) else list(it)
                    if len(it) != 2:
                        raise Fault(f'dict.update(): dictionary update sequence element #{k} has length {len(it)}; '
                                    '2 is required (ValueError)', node)
                    o[_key(it[0], node)] = it[1]
            for k, v in kw.items():
                o[k] = v
        return update
    if attr == 'declare':
        return lambda *a, **k: None
    return UNK


def _set_attr(m, o, attr, node):
    def conv(v):
        return {_key(x, node) for x in m.iterate(v, node)}
    if attr == 'difference':
        return lambda v: o.difference(conv(v))
    if attr == 'union':
        return lambda v: o.union(conv(v))
    if attr == 'intersection':
        return lambda v: o.intersection(conv(v))
    if attr == 'update':
        return lambda v: o.update(conv(v))
    if attr == 'add':
        return lambda v: o.add(_key(v, node))
    if attr == 'pop':
        def pop():
            if not o:
                raise Fault('pop from an empty set', node)
            k = min(o, key=repr)
            o.discard(k)
            return k
        return pop
    return UNK


def _b_len(v):
    if isunk(v):
        return UNK
    if isinstance(v, Arr):
        if v.ndim == 0:
            raise Fault('len() of a 0-d array')
        return v.shape[0]
    if is_num(v):
        raise Fault('len() of a scalar')
    return len(v)


def _b_range(*a):
    vals = []
    for x in a:
        if isinstance(x, Fraction) and x.denominator == 1:
            x = int(x)
        if isinstance(x, Arr) and x.size == 1:
            x = x.data[0]
        if not isinstance(x, int):
            raise Unsupported('range() of a non-integer')
        vals.append(x)
    return range(*vals)


def _b_seq(kind):
    def mk(v=()):
        if isunk(v):
            return UNK
        if isinstance(v, Arr):
            if v.ndim == 1:
                items = list(v.data)
            else:
                step = _size(v.shape[1:])
                items = [Arr(v.data[i * step:(i + 1) * step], v.shape[1:], view=True)
                         for i in range(v.shape[0])]
        elif isinstance(v, dict):
            items = list(v.keys())
        else:
            items = list(v)
        if kind is set:
            return {_key(x, None) for x in items}
        return kind(items)
    return mk


def _b_zip(*vs):
    cols = []
    for v in vs:
        if isunk(v):
            raise Unsupported('zip over an unknown quantity')
        if isinstance(v, Arr):
            if v.ndim != 1:
                step = _size(v.shape[1:])
                cols.append([Arr(v.data[i * step:(i + 1) * step], v.shape[1:], view=True)
                             for i in range(v.shape[0])])
            else:
                cols.append(list(v.data))
        else:
            cols.append(list(v))
    return list(zip(*cols))


def _b_minmax(fn):
    def f(*a):
        if len(a) == 1:
            a = list(a[0].data) if isinstance(a[0], Arr) else list(a[0])
        if any(isunk(x) for x in a):
            return UNK
        if any(isinstance(x, Arr) and x.size != 1 for x in a):
            # builtin max/min compare with `>`; on arrays that needs a truth value
            raise Fault('builtin max()/min() applied to an array with more than one element '
                        '(ValueError in numpy: ambiguous truth value)')
        keyed = [(x.data[0] if isinstance(x, Arr) else x, k) for k, x in enumerate(a)]
        if any(isunk(v) for v, _ in keyed):
            return UNK
        best = fn(keyed, key=lambda t: t[0])
        return a[best[1]]
    return f


def _b_abs(v):
    if isunk(v):
        return UNK
    if isinstance(v, Arr):
        return Arr([UNK if isunk(x) else abs(x) for x in v.data], v.shape)
    return abs(v)


def _b_int(v=0):
    if isunk(v):
        return UNK
    if isinstance(v, Arr) and v.size == 1:
        v = v.data[0]
    return int(v)


class _TypeFn:
    """A builtin type that is both callable (conversion) and usable in isinstance()."""

    def __init__(self, name, fn):
        self.name, self.fn = name, fn

    def __call__(self, *a, **k):
        return self.fn(*a, **k)


def _type_tag(x):
    if isinstance(x, _TypeFn):
        return x.name
    if isinstance(x, tuple) and len(x) == 2 and x[0] == 'TYPE':
        return x[1]
    return None


def _b_isinstance(v, t):
    if isunk(v):
        return UNK
    ts = (t,) if _type_tag(t) is not None or not isinstance(t, tuple) else t
    res = False
    for x in ts:
        tag = _type_tag(x)
        if tag == 'ndarray':
            res = res or isinstance(v, Arr)
        elif tag == 'list':
            res = res or isinstance(v, list)
        elif tag == 'tuple':
            res = res or isinstance(v, tuple)
        elif tag == 'dict':
            res = res or isinstance(v, dict)
        elif tag == 'str':
            res = res or isinstance(v, str)
        else:
            return UNK
    return res


_ARR_ATTRS = {'min', 'max', 'shape', 'ndim', 'size', 'dtype', 'T', 'real', 'item', 'copy', 'ravel', 'flatten', 'astype', 'any',
              'all', 'transpose', 'reshape', 'tolist'}


def _b_hasattr(o, name):
    if isunk(o) or not isinstance(name, str):
        return UNK
    if isinstance(o, Arr):
        return name in _ARR_ATTRS
    if isinstance(o, (list, tuple, dict, set, frozenset, str)) or is_num(o) or o is None:
        return hasattr(o, name) and name not in ('ndim', 'dtype', 'astype', 'shape')
    if isinstance(o, Obj):
        return name in o.attrs or name in o.stubs or UNK
    return UNK


_BUILTINS = {
    'len': _b_len, 'range': _b_range, 'tuple': _TypeFn('tuple', _b_seq(tuple)), 'list': _TypeFn('list', _b_seq(list)), 'set': _b_seq(set),
    'zip': _b_zip, 'slice': lambda *a: slice(*a), 'max': _b_minmax(max), 'min': _b_minmax(min),
    'abs': _b_abs, 'int': _b_int, 'float': lambda v=0: v, 'bool': lambda v=False: truth(v),
    'enumerate': lambda v, start=0: list(enumerate(_b_seq(list)(v), start)),
    'sum': lambda v, s=0: UNK if any(isunk(x) for x in _b_seq(list)(v)) else sum(_b_seq(list)(v), s),
    'isinstance': _b_isinstance, 'complex': 'complex', 'str': _TypeFn('str', lambda *a: 'STR'),
    'True': True, 'False': False, 'None': None,
    'dict': _TypeFn('dict', lambda *a, **k: dict(*a, **k)), 'type': lambda *a: UNK, 'print': lambda *a, **k: None,
    'hasattr': _b_hasattr, 'sorted': lambda v, **k: sorted(_b_seq(list)(v)),
    'reversed': lambda v: list(reversed(_b_seq(list)(v))),
}
